(* Statement-by-statement transliteration of Context.setAsNaN, add (Add / Sub), Abs, Neg and Round with the Go
   order of field reads and writes over pointers d, x, y that may coincide.  c.round(d, d) works on the
   destination only (it starts after every read of x and y): it is one read of d's fields, the pure rounding,
   and one write.  The pure functions it must compute are the model's own ctx_add, ctx_abs, ... (Model/Context.v).
   No proofs here. *)
From Coq Require Import ZArith List Bool Lia.
From Apd Require Import Generated.Consts Model.Base Model.NumDigits Model.Decimal Model.Context Imp.Mem Imp.Ops.
Import ListNotations.
Open Scope Z_scope.

Definition rd_dec (o : obj) : prog dec :=
  f <- rd (o, FForm) ;; n <- rd (o, FNeg) ;; e <- rd (o, FExp) ;; c <- rd (o, FCoeff) ;;
  Ret (mkDec (form_of_Z f) (negb (n =? 0)) e c).
Definition wr_dec (o : obj) (v : dec) : prog unit :=
  wr (o, FForm) (form_to_Z (form_of v)) ;;; wr (o, FNeg) (b2z (neg v)) ;;; wr (o, FExp) (exp v) ;;; wr (o, FCoeff) (coeff v).

(* what a Context method returns besides the memory effect: the Condition, or how it failed *)
Inductive outcome := OFlags (f : cond) | OErr (e : err) | OPanic (w : panic_reason) | OFuel.

Section WithCtx.
Variable est : Z -> Z.
Variable c : ctx.

(* res := c.round(d, d) *)
Definition round_imp (d : obj) (f0 : cond) : prog outcome :=
  v <- rd_dec d ;;
  match ctx_round est c v with
  | Ok (v', f) => wr_dec d v' ;;; Ret (OFlags (f0 ||| f))
  | Panic w => Ret (OPanic w)
  | OutOfFuel => Ret OFuel
  end.

(* c.setAsNaN(d, x, y): the first signaling NaN, otherwise the first NaN; d.Set(nan); THEN the form of nan is
   tested (nan may be d itself: Set was a no-op) and d is quieted *)
Definition is_nan_z (f : Z) : bool := (f =? 2) || (f =? 3).
Definition set_as_nan_imp (d x : obj) (y : option obj) : prog outcome :=
  fx <- rd (x, FForm) ;;
  fy <- match y with Some y => rd (y, FForm) | None => Ret 0 end ;;
  let nan := if fx =? 2 then Some x
             else match y with
                  | Some yo => if fy =? 2 then Some yo else if fx =? 3 then Some x else if fy =? 3 then Some yo else None
                  | None => if fx =? 3 then Some x else None
                  end in
  match nan with
  | None => Ret (OErr EOther)
  | Some n =>
      set_imp d n ;;;
      fn <- rd (n, FForm) ;;
      if fn =? 2 then wr (d, FForm) 3 ;;; Ret (OFlags fInvalidOperation) else Ret (OFlags c0)
  end.

Definition const_imp (d : obj) (v : dec) : prog unit := wr_dec d v.     (* d.Set(decimalNaN / decimalInfinity) *)

(* the part of add after upscale: pa / pb read the operand coefficients (or return the scaled temporary) *)
Definition add_tail (d : obj) (xnb ynb : bool) (pa pb : prog Z) (s : Z) : prog outcome :=
  wr (d, FNeg) (b2z xnb) ;;;
  a <- pa ;; b <- pb ;;                (* d.Coeff.Add / Sub (a, b): both operands are read, then d.Coeff is written *)
  (if Bool.eqb xnb ynb then wr (d, FCoeff) (a + b)
   else
     wr (d, FCoeff) (a - b) ;;;
     cf <- rd (d, FCoeff) ;;             (* switch d.Coeff.Sign() *)
     if cf <? 0 then
       n <- rd (d, FNeg) ;; wr (d, FNeg) (if n =? 0 then 1 else 0) ;;;
       cc <- rd (d, FCoeff) ;; wr (d, FCoeff) (- cc)
     else if cf =? 0 then wr (d, FNeg) (b2z (rounder_eqb (rounding c) RFloor))
     else Ret tt) ;;;
  wr (d, FExp) s ;;; wr (d, FForm) 0 ;;;
  round_imp d c0.

(* c.add(d, x, y, subtract) *)
Definition add_imp (subtract : bool) (d x y : obj) : prog outcome :=
  fx <- rd (x, FForm) ;; fy <- rd (y, FForm) ;;
  if is_nan_z fx || is_nan_z fy then set_as_nan_imp d x (Some y) else
  xn <- rd (x, FNeg) ;; yn0 <- rd (y, FNeg) ;;
  let xnb := negb (xn =? 0) in
  let ynb := xorb (negb (yn0 =? 0)) subtract in
  let xi := fx =? 1 in
  let yi := fy =? 1 in
  if xi || yi then
    if xi && yi && xorb xnb ynb then const_imp d d_nan ;;; Ret (OFlags fInvalidOperation)
    else if xi then set_imp d x ;;; Ret (OFlags c0)
    else const_imp d d_inf ;;; wr (d, FNeg) (b2z ynb) ;;; Ret (OFlags c0)
  else
  (* upscale(x, y, &tmp): the exponents are read; the coefficient of the operand with the larger exponent is
     read and scaled into tmp; the other coefficient (both when the exponents agree) is only pointed to and
     read by d.Coeff.Add / Sub, after d.Negative has been written *)
  ex <- rd (x, FExp) ;; ey <- rd (y, FExp) ;;
  if ex =? ey then
    add_tail d xnb ynb (rd (x, FCoeff)) (rd (y, FCoeff)) ex
  else if ex <? ey then
    (if ey - ex >? MaxExponent then Ret (OErr EExponentOutOfRange) else
     match table_exp10 (ey - ex) with
     | Ok p => cy <- rd (y, FCoeff) ;; add_tail d xnb ynb (rd (x, FCoeff)) (Ret (cy * p)) ex
     | Panic w => Ret (OPanic w) | OutOfFuel => Ret OFuel
     end)
  else
    (if ex - ey >? MaxExponent then Ret (OErr EExponentOutOfRange) else
     match table_exp10 (ex - ey) with
     | Ok p => cx <- rd (x, FCoeff) ;; add_tail d xnb ynb (Ret (cx * p)) (rd (y, FCoeff)) ey
     | Panic w => Ret (OPanic w) | OutOfFuel => Ret OFuel
     end).

(* Context.Mul: the product is written into d.Coeff first, then d.Negative and d.Form; the operand EXPONENTS are
   read afterwards (d.Exponent has not been written yet, so d == x is harmless) and handed to d.setExponent, which
   works on d alone - and, when it hits the package limits, returns before writing d.Exponent *)
Definition mul_imp (d x y : obj) : prog outcome :=
  fx <- rd (x, FForm) ;; fy <- rd (y, FForm) ;;
  if is_nan_z fx || is_nan_z fy then set_as_nan_imp d x (Some y) else
  xn <- rd (x, FNeg) ;; yn <- rd (y, FNeg) ;;
  let ng := xorb (negb (xn =? 0)) (negb (yn =? 0)) in
  if (fx =? 1) || (fy =? 1) then
    cx <- rd (x, FCoeff) ;; cy <- rd (y, FCoeff) ;;          (* x.IsZero() || y.IsZero() *)
    if ((fx =? 0) && (cx =? 0)) || ((fy =? 0) && (cy =? 0))
    then const_imp d d_nan ;;; Ret (OFlags fInvalidOperation)
    else const_imp d d_inf ;;; wr (d, FNeg) (b2z ng) ;;; Ret (OFlags c0)
  else
  cx <- rd (x, FCoeff) ;; cy <- rd (y, FCoeff) ;;
  wr (d, FCoeff) (cx * cy) ;;; wr (d, FNeg) (b2z ng) ;;; wr (d, FForm) 0 ;;;
  ex <- rd (x, FExp) ;; ey <- rd (y, FExp) ;;
  v <- rd_dec d ;;
  match set_exponent est c v unknownNumDigits c0 [ex; ey] with
  | Ok (v1, f1) => wr_dec d v1 ;;; round_imp d f1
  | Panic w => Ret (OPanic w)
  | OutOfFuel => Ret OFuel
  end.

(* Context.Rem: tmp2.QuoRem(a, b, &d.Coeff) reads both (possibly pointed-to) coefficients and writes the remainder
   into d.Coeff; d.Form, d.Exponent follow; x.Negative is read only THEN (d == x: d.Negative is still x's) *)
Definition rem_tail (d x : obj) (pa pb : prog Z) (s : Z) : prog outcome :=
  a <- pa ;; b <- pb ;;
  if b =? 0 then Ret (OPanic PDivByZero) else
  wr (d, FCoeff) (Z.rem a b) ;;;
  match num_digits_with est (Z.quot a b) with
  | Ok nd =>
      if nd >? prec c then const_imp d d_nan ;;; Ret (OFlags fDivisionImpossible) else
      wr (d, FForm) 0 ;;; wr (d, FExp) s ;;;
      xn <- rd (x, FNeg) ;; wr (d, FNeg) xn ;;;
      round_imp d c0
  | Panic w => Ret (OPanic w)
  | OutOfFuel => Ret OFuel
  end.

Definition rem_imp (d x y : obj) : prog outcome :=
  fx <- rd (x, FForm) ;; fy <- rd (y, FForm) ;;
  if is_nan_z fx || is_nan_z fy then set_as_nan_imp d x (Some y) else
  if negb (fx =? 0) then const_imp d d_nan ;;; Ret (OFlags fInvalidOperation) else
  if fy =? 1 then set_imp d x ;;; round_imp d c0 else          (* c.round(d, x) *)
  cy0 <- rd (y, FCoeff) ;;
  if (fy =? 0) && (cy0 =? 0) then                               (* y.IsZero() *)
    cx0 <- rd (x, FCoeff) ;;
    const_imp d d_nan ;;; Ret (OFlags (if (fx =? 0) && (cx0 =? 0) then fDivisionUndefined else fInvalidOperation))
  else
  ex <- rd (x, FExp) ;; ey <- rd (y, FExp) ;;
  if ex =? ey then rem_tail d x (rd (x, FCoeff)) (rd (y, FCoeff)) ex
  else if ex <? ey then
    (if ey - ex >? MaxExponent then Ret (OErr EExponentOutOfRange) else
     match table_exp10 (ey - ex) with
     | Ok p => cy <- rd (y, FCoeff) ;; rem_tail d x (rd (x, FCoeff)) (Ret (cy * p)) ex
     | Panic w => Ret (OPanic w) | OutOfFuel => Ret OFuel
     end)
  else
    (if ex - ey >? MaxExponent then Ret (OErr EExponentOutOfRange) else
     match table_exp10 (ex - ey) with
     | Ok p => cx <- rd (x, FCoeff) ;; rem_tail d x (Ret (cx * p)) (rd (y, FCoeff)) ey
     | Panic w => Ret (OPanic w) | OutOfFuel => Ret OFuel
     end).

(* c.quoSpecials(d, x, y, canClamp): Some outcome = handled *)
Definition quo_specials_imp (can_clamp : bool) (d x y : obj) : prog (option outcome) :=
  fx <- rd (x, FForm) ;; fy <- rd (y, FForm) ;;
  if is_nan_z fx || is_nan_z fy then o <- set_as_nan_imp d x (Some y) ;; Ret (Some o) else
  xn <- rd (x, FNeg) ;; yn <- rd (y, FNeg) ;;
  let ng := xorb (negb (xn =? 0)) (negb (yn =? 0)) in
  if (fx =? 1) || (fy =? 1) then
    if (fx =? 1) && (fy =? 1) then const_imp d d_nan ;;; Ret (Some (OFlags fInvalidOperation))
    else if fx =? 1 then const_imp d d_inf ;;; wr (d, FNeg) (b2z ng) ;;; Ret (Some (OFlags c0))
    else
      const_imp d (mkDec Finite false 0 0) ;;; wr (d, FNeg) (b2z ng) ;;;       (* d.SetInt64(0); d.Negative = neg *)
      if can_clamp then wr (d, FExp) (etiny c) ;;; Ret (Some (OFlags fClamped)) else Ret (Some (OFlags c0))
  else
  cy <- rd (y, FCoeff) ;;
  if (fy =? 0) && (cy =? 0) then
    cx <- rd (x, FCoeff) ;;
    if (fx =? 0) && (cx =? 0) then const_imp d d_nan ;;; Ret (Some (OFlags fDivisionUndefined))
    else const_imp d d_inf ;;; wr (d, FNeg) (b2z ng) ;;; Ret (Some (OFlags fDivisionByZero))
  else if prec c =? 0 then Ret (Some (OErr EZeroPrecision))
  else Ret None.

(* Context.QuoInteger: d.Coeff.Quo(a, b); d.Form = Finite; the digit count of d itself decides DivisionImpossible
   (d.Set(decimalNaN)); d.Exponent = 0 and d.Negative = neg are written last - also on the NaN *)
Definition qi_tail (d : obj) (ng : bool) (pa pb : prog Z) : prog outcome :=
  a <- pa ;; b <- pb ;;
  if b =? 0 then Ret (OPanic PDivByZero) else
  wr (d, FCoeff) (Z.quot a b) ;;; wr (d, FForm) 0 ;;;
  q <- rd (d, FCoeff) ;;
  match num_digits_with est q with
  | Ok nd =>
      (if nd >? prec c then const_imp d d_nan else Ret tt) ;;;
      wr (d, FExp) 0 ;;; wr (d, FNeg) (b2z ng) ;;;
      Ret (OFlags (if nd >? prec c then fDivisionImpossible else c0))
  | Panic w => Ret (OPanic w)
  | OutOfFuel => Ret OFuel
  end.

Definition quo_integer_imp (d x y : obj) : prog outcome :=
  sp <- quo_specials_imp false d x y ;;
  match sp with
  | Some o => Ret o
  | None =>
      xn <- rd (x, FNeg) ;; yn <- rd (y, FNeg) ;;
      let ng := xorb (negb (xn =? 0)) (negb (yn =? 0)) in
      ex <- rd (x, FExp) ;; ey <- rd (y, FExp) ;;
      if ex =? ey then qi_tail d ng (rd (x, FCoeff)) (rd (y, FCoeff))
      else if ex <? ey then
        (if ey - ex >? MaxExponent then Ret (OErr EExponentOutOfRange) else
         match table_exp10 (ey - ex) with
         | Ok p => cy <- rd (y, FCoeff) ;; qi_tail d ng (rd (x, FCoeff)) (Ret (cy * p))
         | Panic w => Ret (OPanic w) | OutOfFuel => Ret OFuel
         end)
      else
        (if ex - ey >? MaxExponent then Ret (OErr EExponentOutOfRange) else
         match table_exp10 (ex - ey) with
         | Ok p => cx <- rd (x, FCoeff) ;; qi_tail d ng (Ret (cx * p)) (rd (y, FCoeff))
         | Panic w => Ret (OPanic w) | OutOfFuel => Ret OFuel
         end)
  end.

(* Context.Abs / Neg / Round *)
Definition ctx_abs_imp (d x : obj) : prog outcome :=
  fx <- rd (x, FForm) ;;
  if is_nan_z fx then set_as_nan_imp d x None else abs_imp d x ;;; round_imp d c0.
Definition ctx_neg_imp (d x : obj) : prog outcome :=
  fx <- rd (x, FForm) ;;
  if is_nan_z fx then set_as_nan_imp d x None else neg_imp d x ;;; round_imp d c0.
Definition ctx_round_imp (d x : obj) : prog outcome :=
  fx <- rd (x, FForm) ;;
  if is_nan_z fx then set_as_nan_imp d x None else set_imp d x ;;; round_imp d c0.

End WithCtx.

(* what the model says the call delivers *)
Definition outcome_of (r : res result) : outcome :=
  match r with
  | Ok r => match rdec r with Some _ => OFlags (rcond r) | None => OErr (rerr r) end
  | Panic w => OPanic w
  | OutOfFuel => OFuel
  end.
Definition mem_after (m : mem) (d : obj) (r : res result) : mem :=
  match r with Ok r => match rdec r with Some v => put m d v | None => m end | _ => m end.
