(* C18 instance: two calls with distinct destinations sharing an operand, under every interleaving. *)
From Coq Require Import ZArith List Bool Lia.
From Apd Require Import Generated.Consts Model.Base Model.NumDigits Imp.Mem Imp.Ops Imp.AliasProofs Imp.Interleave.
Import ListNotations.
Open Scope Z_scope.

(* goroutine 1: OA.Neg(OC); goroutine 2: OB.Abs(OC): own destinations, shared operand *)
Definition two_calls : threads unit := [neg_imp OA OC; abs_imp OB OC].
Definition two_fps : list footprint :=
  [mkFp (only_objs [OA; OC]) (only_obj OA); mkFp (only_objs [OB; OC]) (only_obj OB)].

Lemma two_noninterfering : noninterfering two_fps.
Proof.
  intros i j fi fj Hne Hi Hj a Wa.
  destruct i as [|[|i]], j as [|[|j]]; cbn in Hi, Hj; try congruence; try (destruct i; discriminate); try (destruct j; discriminate);
    injection Hi as <-; injection Hj as <-; cbn in *; unfold only_obj, only_objs in *; cbn; rewrite Wa; split; intuition congruence.
Qed.

Theorem shared_operand_any_schedule m0 sched :
  let '(ts, m) := exec two_calls m0 sched in
  nth_error ts 0 = Some (Ret tt) -> nth_error ts 1 = Some (Ret tt) ->
  (forall f, m (OA, f) = snd (run (neg_imp OA OC) m0) (OA, f)) /\
  (forall f, m (OB, f) = snd (run (abs_imp OB OC) m0) (OB, f)).
Proof.
  pose proof (interleaving_is_solo two_calls two_fps m0 sched eq_refl two_noninterfering) as H.
  assert (Hfit : forall i p f, nth_error two_calls i = Some p -> nth_error two_fps i = Some f -> fits p f).
  { intros i p f Hp Hf. unfold two_calls, two_fps in Hp, Hf. destruct i as [|[|i]]; cbn [nth_error] in Hp, Hf; try (destruct i; discriminate);
      injection Hp as <-; injection Hf as <-; split; cbn [fp_R fp_W].
    - apply neg_imp_reads. - apply neg_imp_frame. - apply abs_imp_reads. - apply abs_imp_frame. }
  specialize (H Hfit). destruct (exec two_calls m0 sched) as [ts m]. intros H0 H1. split; intros f.
  - destruct (H 0%nat _ _ tt eq_refl eq_refl H0) as [_ Hm]. apply Hm. reflexivity.
  - destruct (H 1%nat _ _ tt eq_refl eq_refl H1) as [_ Hm]. apply Hm. reflexivity.
Qed.
