(* C18 instance with Context methods: goroutine 1 computes OA := OC + OC, goroutine 2 computes OB := OC - OC,
   sharing one Context and the operand OC, each with its own destination, under every interleaving of their
   field reads and writes. *)
From Coq Require Import ZArith List Bool Lia.
From Apd Require Import Generated.Consts Model.Base Model.NumDigits Model.Decimal Model.Context
  Imp.Mem Imp.Ops Imp.AliasProofs Imp.Interleave Imp.CtxOps Imp.CtxProofs Imp.CtxOps2 Imp.CtxQuantReduceProofs.
Import ListNotations.
Open Scope Z_scope.

Section WithCtx.
Variable est : Z -> Z.
Variable c : ctx.

Definition two_adds : threads outcome := [add_imp est c false OA OC OC; add_imp est c true OB OC OC].
Definition two_add_fps : list footprint :=
  [mkFp (only_objs [OA; OC; OC]) (only_obj OA); mkFp (only_objs [OB; OC; OC]) (only_obj OB)].

Lemma two_adds_noninterfering : noninterfering two_add_fps.
Proof.
  intros i j fi fj Hne Hi Hj a Wa.
  destruct i as [|[|i]], j as [|[|j]]; cbn in Hi, Hj; try congruence; try (destruct i; discriminate); try (destruct j; discriminate);
    injection Hi as <-; injection Hj as <-; cbn in *; unfold only_obj, only_objs in *; cbn; rewrite Wa; split; intuition congruence.
Qed.

(* whatever the schedule, when both calls have returned each returned the Condition of its solo run - which
   C05 shows to be the model's - and its destination holds what its solo run leaves there *)
Theorem shared_context_and_operand_any_schedule m0 sched :
  let '(ts, m) := exec two_adds m0 sched in
  forall o1 o2, nth_error ts 0 = Some (Ret o1) -> nth_error ts 1 = Some (Ret o2) ->
  o1 = fst (run (add_imp est c false OA OC OC) m0) /\ o2 = fst (run (add_imp est c true OB OC OC) m0) /\
  (forall f, m (OA, f) = snd (run (add_imp est c false OA OC OC) m0) (OA, f)) /\
  (forall f, m (OB, f) = snd (run (add_imp est c true OB OC OC) m0) (OB, f)).
Proof.
  pose proof (interleaving_is_solo two_adds two_add_fps m0 sched eq_refl two_adds_noninterfering) as H.
  assert (Hfit : forall i p f, nth_error two_adds i = Some p -> nth_error two_add_fps i = Some f -> fits p f).
  { intros i p f Hp Hf. unfold two_adds, two_add_fps in Hp, Hf. destruct i as [|[|i]]; cbn [nth_error] in Hp, Hf; try (destruct i; discriminate);
      injection Hp as <-; injection Hf as <-; split; cbn [fp_R fp_W].
    - apply add_imp_reads. - apply add_imp_ww. - apply add_imp_reads. - apply add_imp_ww. }
  specialize (H Hfit). destruct (exec two_adds m0 sched) as [ts m]. intros o1 o2 H0 H1.
  destruct (H 0%nat _ _ o1 eq_refl eq_refl H0) as [E1 M1]. destruct (H 1%nat _ _ o2 eq_refl eq_refl H1) as [E2 M2].
  repeat split; try assumption; intros f; [apply M1|apply M2]; reflexivity.
Qed.

(* the same for ANY two methods whose footprints are "reads its destination and the shared operand, writes its
   destination": e.g. OA := OC / OC and OB := Quantize(OC, e) on one Context *)
Theorem shared_operand_any_two_methods (p1 p2 : prog outcome) m0 sched :
  rd_within (only_objs [OA; OC; OC]) p1 -> wr_within (only_obj OA) p1 ->
  rd_within (only_objs [OB; OC; OC]) p2 -> wr_within (only_obj OB) p2 ->
  let '(ts, m) := exec [p1; p2] m0 sched in
  forall o1 o2, nth_error ts 0 = Some (Ret o1) -> nth_error ts 1 = Some (Ret o2) ->
  o1 = fst (run p1 m0) /\ o2 = fst (run p2 m0) /\
  (forall f, m (OA, f) = snd (run p1 m0) (OA, f)) /\ (forall f, m (OB, f) = snd (run p2 m0) (OB, f)).
Proof.
  intros R1 W1 R2 W2.
  pose proof (interleaving_is_solo [p1; p2] two_add_fps m0 sched eq_refl two_adds_noninterfering) as H.
  assert (Hfit : forall i p f, nth_error [p1; p2] i = Some p -> nth_error two_add_fps i = Some f -> fits p f).
  { intros i p f Hp Hf. unfold two_add_fps in Hf. destruct i as [|[|i]]; cbn [nth_error] in Hp, Hf; try (destruct i; discriminate);
      injection Hp as <-; injection Hf as <-; split; cbn [fp_R fp_W]; assumption. }
  specialize (H Hfit). destruct (exec [p1; p2] m0 sched) as [ts m]. intros o1 o2 H0 H1.
  destruct (H 0%nat _ _ o1 eq_refl eq_refl H0) as [E1 M1]. destruct (H 1%nat _ _ o2 eq_refl eq_refl H1) as [E2 M2].
  repeat split; try assumption; intros f; [apply M1|apply M2]; reflexivity.
Qed.

Theorem shared_context_quo_and_quantize e m0 sched :
  let p1 := quo_imp est c OA OC OC in
  let p2 := quantize_imp est c e OB OC in
  let '(ts, m) := exec [p1; p2] m0 sched in
  forall o1 o2, nth_error ts 0 = Some (Ret o1) -> nth_error ts 1 = Some (Ret o2) ->
  o1 = fst (run p1 m0) /\ o2 = fst (run p2 m0) /\
  (forall f, m (OA, f) = snd (run p1 m0) (OA, f)) /\ (forall f, m (OB, f) = snd (run p2 m0) (OB, f)).
Proof.
  intros p1 p2. apply shared_operand_any_two_methods.
  - apply quo_imp_reads. - apply quo_imp_ww.
  - apply (rd_within_weaken (only_objs [OB; OC])); [|apply quantize_imp_reads]. intros a Ha. unfold only_objs in *. cbn in *. tauto.
  - apply quantize_imp_ww.
Qed.
End WithCtx.
