(* C06 - results depend only on operands and context; inputs are never modified.  Statements only;
   proofs in Imp/AliasProofs.v.  The theorems of C05 already say that the final memory is the INITIAL
   memory with only the destination object(s) replaced by a function of the operand's initial value: so
   the outcome is independent of what the destination held (NaN, Infinity, a huge coefficient) and every
   other object is bit-for-bit unchanged.  Here: the write footprint of each transliterated method over
   every branch is the destination object(s) only.  The pure model of the Context operations has no
   destination input at all; the implementation is run with dirty destinations (zero value, NaN, sNaN with
   payload, +-Infinity, -0E-7, 40-90 digit heap coefficients, MaxInt64) and must return the same result,
   operands are snapshotted before/after every call and the package-level tables and constants are
   snapshotted through the verif hook before/after whole histories of calls. *)
From Coq Require Import ZArith Bool List.
From Apd Require Import Generated.Consts Model.Base Model.NumDigits Model.Decimal Model.Context Imp.Mem Imp.Ops Imp.AliasProofs Imp.CtxOps Imp.CtxProofs Imp.CtxMulProofs Imp.CtxFootprints2 Imp.CtxOps2 Imp.CtxQuantReduceProofs.
Open Scope Z_scope.

Theorem C06_set_writes_destination_only d x : wr_within (only_obj d) (set_imp d x).
Proof. exact (set_imp_frame d x). Qed.
Print Assumptions C06_set_writes_destination_only.
Theorem C06_abs_writes_destination_only d x : wr_within (only_obj d) (abs_imp d x).
Proof. exact (abs_imp_frame d x). Qed.
Print Assumptions C06_abs_writes_destination_only.
Theorem C06_neg_writes_destination_only d x : wr_within (only_obj d) (neg_imp d x).
Proof. exact (neg_imp_frame d x). Qed.
Print Assumptions C06_neg_writes_destination_only.
Theorem C06_modf_writes_outputs_only d integ frac : wr_within (only_objs (objs_of integ frac)) (modf_imp d integ frac).
Proof. exact (modf_imp_frame d integ frac). Qed.
Print Assumptions C06_modf_writes_outputs_only.

(* Context.Add / Sub / Abs / Neg / Round (Imp/CtxOps.v): over every branch - NaN operands, infinities, the three
   upscale cases, the sign fix-ups, the rounding - only fields of the destination are written, and only fields of
   d, x and y are read; with C05_context_* (final memory = initial memory with d replaced by a function of the
   operands' initial values) the outcome is independent of what d held, and x, y, every other object unchanged *)
Theorem C06_context_add_sub_writes_destination_only est c sub d x y : wr_within (only_obj d) (add_imp est c sub d x y).
Proof. exact (add_imp_ww est c sub d x y). Qed.
Print Assumptions C06_context_add_sub_writes_destination_only.
Theorem C06_context_abs_neg_round_write_destination_only est c d x :
  wr_within (only_obj d) (ctx_abs_imp est c d x) /\ wr_within (only_obj d) (ctx_neg_imp est c d x) /\
  wr_within (only_obj d) (ctx_round_imp est c d x).
Proof. exact (conj (ctx_abs_imp_ww est c d x) (conj (ctx_neg_imp_ww est c d x) (ctx_round_imp_ww est c d x))). Qed.
Print Assumptions C06_context_abs_neg_round_write_destination_only.
Theorem C06_context_methods_read_their_arguments_only est c sub d x y :
  rd_within (only_objs [d; x; y]) (add_imp est c sub d x y) /\ rd_within (only_objs [d; x]) (ctx_abs_imp est c d x) /\
  rd_within (only_objs [d; x]) (ctx_neg_imp est c d x) /\ rd_within (only_objs [d; x]) (ctx_round_imp est c d x).
Proof. exact (conj (add_imp_reads est c sub d x y) (conj (ctx_abs_imp_reads est c d x) (conj (ctx_neg_imp_reads est c d x) (ctx_round_imp_reads est c d x)))). Qed.
Print Assumptions C06_context_methods_read_their_arguments_only.

Theorem C06_context_mul_footprint est c d x y :
  wr_within (only_obj d) (mul_imp est c d x y) /\ rd_within (only_objs [d; x; y]) (mul_imp est c d x y).
Proof. exact (conj (mul_imp_ww est c d x y) (mul_imp_reads est c d x y)). Qed.
Print Assumptions C06_context_mul_footprint.

Theorem C06_context_rem_quo_integer_footprints est c d x y :
  wr_within (only_obj d) (rem_imp est c d x y) /\ rd_within (only_objs [d; x; y]) (rem_imp est c d x y) /\
  wr_within (only_obj d) (quo_integer_imp est c d x y) /\ rd_within (only_objs [d; x; y]) (quo_integer_imp est c d x y).
Proof. exact (conj (rem_imp_ww est c d x y) (conj (rem_imp_reads est c d x y) (conj (quo_integer_imp_ww est c d x y) (quo_integer_imp_reads est c d x y)))). Qed.
Print Assumptions C06_context_rem_quo_integer_footprints.

Theorem C06_context_quantize_reduce_footprints est c e d x :
  wr_within (only_obj d) (quantize_imp est c e d x) /\ rd_within (only_objs [d; x]) (quantize_imp est c e d x) /\
  wr_within (only_obj d) (reduce_imp est c d x) /\ rd_within (only_objs [d; x]) (reduce_imp est c d x).
Proof. exact (conj (quantize_imp_ww est c e d x) (conj (quantize_imp_reads est c e d x) (conj (reduce_imp_ww est c d x) (reduce_imp_reads est c d x)))). Qed.
Print Assumptions C06_context_quantize_reduce_footprints.

Theorem C06_context_quo_footprint est c d x y :
  wr_within (only_obj d) (quo_imp est c d x y) /\ rd_within (only_objs [d; x; y]) (quo_imp est c d x y).
Proof. exact (conj (quo_imp_ww est c d x y) (quo_imp_reads est c d x y)). Qed.
Print Assumptions C06_context_quo_footprint.

(* independence of the destination's previous contents and preservation of the others, as one statement
   (from C05_modf): two initial memories that agree on the receiver give the same outputs *)
Theorem C06_modf_result_is_function_of_receiver d integ frac m : wf_mem m -> distinct_opt integ frac ->
  mem_eq (snd (run (modf_imp d integ frac) m))
         (put_opt (put_opt m integ (fst (modf_pure (get m d)))) frac (snd (modf_pure (get m d)))).
Proof. exact (modf_imp_pure d integ frac m). Qed.
Print Assumptions C06_modf_result_is_function_of_receiver.
