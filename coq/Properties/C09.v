(* C09 - Quantize and RoundToIntegral produce the requested exponent, correctly rounded.
   Statements only; proofs in Proofs/QuantizeProofs.v and Proofs/QuantizeMid.v.
   quant_coeff mode x e is the integer the property prescribes: x / 10^e rounded to an integer by the
   specification's rndZ in the mode, with the sign of x (exact multiplication when e is finer);
   quant_inexact: digits were lost; quant_invalid: the coefficient needs more than Precision digits, or e
   lies outside [Etiny, Emax], or the result's adjusted exponent exceeds Emax.
   Proven for EVERY finite operand, target exponent, context and mode: every branch of Context.quantize
   (finer or equal exponent; some digits dropped through the inner Round with a scratch context, with the
   carry out of all nines folded back; exactly all digits dropped; the operand more than one digit below
   the quantum; zeros), Context.Quantize with its guards, and RoundToIntegralExact / Value.
   Ceil and Floor, for every finite operand: x itself when its exponent is positive; the integer part
   (Decimal.Modf's truncation) when no adjustment is due; otherwise the integer int_part + 1 rounded ONCE to the
   context (op_post: value, flags, fit), which is that integer exactly whenever it fits the precision. *)
From Coq Require Import ZArith Bool.
From Apd Require Import Generated.Consts Model.Base Model.NumDigits Model.Decimal Model.Context Spec.SpecZ
  Proofs.Core Proofs.SetExponent Proofs.OpsProofs Proofs.QuantizeProofs Proofs.QuantizeMid Proofs.CeilFloor Proofs.OpsProjections.
Open Scope Z_scope.

Theorem C09_quantize_finer_exact est c v e : e <= exp v -> exp v - e <= MaxExponent ->
  quantize_inner est c v e = Ok (mkDec (form_of v) (neg v) e (coeff v * 10 ^ (exp v - e)), c0).
Proof. exact (quantize_finer est c v e). Qed.
Print Assumptions C09_quantize_finer_exact.

Theorem C09_quantize_every_digit_discarded est : est_in_range est -> forall c v e,
  form_of v = Finite -> 0 < coeff v -> ndigits (coeff v) < e - exp v ->
  quantize_inner est c v e =
    Ok (mkDec Finite (neg v) e (rndZ (rounding c) (neg v) (coeff v) (10 ^ (e - exp v))), fInexact ||| fRounded)
  /\ 0 <= rndZ (rounding c) (neg v) (coeff v) (10 ^ (e - exp v)) <= 1.
Proof. exact (quantize_all_discarded est). Qed.
Print Assumptions C09_quantize_every_digit_discarded.

(* a zero operand: only the exponent changes - at any distance between the exponents - and no condition is raised *)
Theorem C09_quantize_zero est c v e :
  form_of v = Finite -> coeff v = 0 ->
  quantize_inner est c v e = Ok (mkDec Finite (neg v) e 0, c0).
Proof. exact (quantize_zero est c v e). Qed.
Print Assumptions C09_quantize_zero.

(* RoundToIntegralValue is RoundToIntegralExact without Inexact/Rounded *)
Theorem C09_rti_value_vs_exact est c x : form_of x = Finite ->
  forall d f, quantize_inner est c x 0 = Ok (d, f) ->
  ctx_rti_value est c x = Ok (finish c d (clear_inexact_rounded f)) /\ ctx_rti_exact est c x = Ok (finish c d f).
Proof. exact (rti_value_clears_flags est c x). Qed.
Print Assumptions C09_rti_value_vs_exact.

(* every branch of Context.quantize: the coefficient is x / 10^e rounded once, Inexact iff digits were lost *)
Theorem C09_quantize_coefficient est : est_in_range est -> forall c v e, form_of v = Finite -> 0 <= coeff v ->
  exp v - e < MaxExponent -> e - exp v < MaxExponent -> ndigits (coeff v) < MaxExponent ->
  exists d f, quantize_inner est c v e = Ok (d, f) /\ quant_post c v e d f.
Proof. exact (quantize_inner_correct est). Qed.
Print Assumptions C09_quantize_coefficient.

(* Context.Quantize: NaN + InvalidOperation exactly in the property's cases; otherwise exponent e, the rounded
   coefficient, Inexact iff digits were lost (then Rounded), never Underflow / Overflow, and the result fits *)
Theorem C09_quantize est : est_in_range est -> forall c x e, ctx_ok c -> form_of x = Finite -> 0 <= coeff x ->
  exp x - e < MaxExponent -> e - exp x < MaxExponent -> ndigits (coeff x) < MaxExponent ->
  in_lim e -> in_lim (e + ndigits (quant_coeff (rounding c) x e) - 1) ->
  let q := quant_coeff (rounding c) x e in
  if quant_invalid c x e
  then ctx_quantize est c x e = Ok (finish c d_nan fInvalidOperation)
  else exists f, ctx_quantize est c x e = Ok (finish c (mkDec Finite (neg x) e q) f) /\
         Inexact f = quant_inexact x e /\ (Inexact f = true -> Rounded f = true) /\
         Underflow f = false /\ Overflow f = false /\ InvalidOperation f = false /\
         fits c (mkDec Finite (neg x) e q) = true.
Proof. exact (quantize_correct est). Qed.
Print Assumptions C09_quantize.

(* RoundToIntegralExact is Quantize to exponent 0 without the digit limit; RoundToIntegralValue the same,
   reporting neither Inexact nor Rounded *)
Theorem C09_round_to_integral est : est_in_range est -> forall c x, form_of x = Finite -> 0 <= coeff x ->
  exp x < MaxExponent -> - exp x < MaxExponent -> ndigits (coeff x) < MaxExponent ->
  exists f, ctx_rti_exact est c x = Ok (finish c (mkDec Finite (neg x) 0 (quant_coeff (rounding c) x 0)) f) /\
            ctx_rti_value est c x = Ok (finish c (mkDec Finite (neg x) 0 (quant_coeff (rounding c) x 0)) (clear_inexact_rounded f)) /\
            Inexact f = quant_inexact x 0 /\ (Inexact f = true -> Rounded f = true) /\
            Inexact (clear_inexact_rounded f) = false /\ Rounded (clear_inexact_rounded f) = false.
Proof. exact (rti_correct est). Qed.
Print Assumptions C09_round_to_integral.

(* Ceil: the smallest integer not below x.  int_part x = |coeff| / 10^-exp (truncation), has_frac x: digits
   follow the point.  Negative or integral x: the truncation itself, no flags.  Positive with a fraction:
   int_part + 1 through one Context.Add, hence rounded once (op_post = C01 + C02 + C07 for that integer). *)
Theorem C09_ceil est : est_in_range est -> forall c x, ctx_ok c -> finite_nn x -> ndigits (int_part x + 1) < MaxExponent ->
  if 0 <? exp x then ctx_ceil est c x = Ok (mkResult (Some x) c0 ENone)
  else if has_frac x && negb (neg x)
  then exists d f, ctx_ceil est c x = Ok (finish c d f) /\ op_post c (mkExact false (int_part x + 1) 1 0) d f
  else ctx_ceil est c x = Ok (mkResult (Some (mkDec Finite (neg x) 0 (int_part x))) c0 ENone).
Proof. exact (ceil_correct est). Qed.
Print Assumptions C09_ceil.

(* Floor: the largest integer not above x; negative with a fraction: -(int_part + 1) through one Context.Sub *)
Theorem C09_floor est : est_in_range est -> forall c x, ctx_ok c -> finite_nn x -> ndigits (int_part x + 1) < MaxExponent ->
  if 0 <? exp x then ctx_floor est c x = Ok (mkResult (Some x) c0 ENone)
  else if has_frac x && neg x
  then exists d f, ctx_floor est c x = Ok (finish c d f) /\ op_post c (mkExact true (int_part x + 1) 1 0) d f
  else ctx_floor est c x = Ok (mkResult (Some (mkDec Finite (neg x) 0 (int_part x))) c0 ENone).
Proof. exact (floor_correct est). Qed.
Print Assumptions C09_floor.

(* "whose integer part fits the precision": then op_post pins the result to that integer exactly - sign ng,
   value q + 1 (whatever exponent the representation carries), neither Inexact nor Overflow *)
Theorem C09_ceil_floor_exact_when_fits c ng q d f : ctx_ok c -> 0 <= q -> ndigits (q + 1) <= prec c ->
  emin c - prec c + 1 <= 0 -> ndigits (q + 1) - 1 <= emax c ->
  op_post c (mkExact ng (q + 1) 1 0) d f ->
  form_of d = Finite /\ neg d = ng /\ Inexact f = false /\ Overflow f = false /\
  forall t, 0 <= t -> 0 <= exp d + t -> coeff d * 10 ^ (exp d + t) = (q + 1) * 10 ^ t.
Proof. exact (ceil_floor_fits c ng q d f). Qed.
Print Assumptions C09_ceil_floor_exact_when_fits.

(* non-vacuity: Ceil(12.3) = 13, Ceil(-12.3) = -12, Floor(-12.3) = -13, Ceil(99.5) at Precision 2 = 1.0E+2 *)
Example C09_ceil_floor_example :
  (rdec_value (ctx_ceil go_est (mkCtx 5 9 (-9) c0 RHalfUp) (mkDec Finite false (-1) 123)),
   rdec_value (ctx_ceil go_est (mkCtx 5 9 (-9) c0 RHalfUp) (mkDec Finite true (-1) 123)),
   rdec_value (ctx_floor go_est (mkCtx 5 9 (-9) c0 RHalfUp) (mkDec Finite true (-1) 123)),
   rdec_value (ctx_ceil go_est (mkCtx 2 9 (-9) c0 RHalfUp) (mkDec Finite false (-1) 995)))
  = (Some (mkDec Finite false 0 13), Some (mkDec Finite true 0 12), Some (mkDec Finite true 0 13),
     Some (mkDec Finite false 1 10)).
Proof. vm_compute. reflexivity. Qed.

(* non-vacuity: 999.5 quantized to exponent 0 at Precision 3 under half_up rounds to 1000, which needs four
   digits: invalid; at Precision 4 it is 1000 with Inexact *)
Example C09_quantize_carry :
  quant_invalid (mkCtx 3 9 (-9) c0 RHalfUp) (mkDec Finite false (-1) 9995) 0 = true /\
  quant_invalid (mkCtx 4 9 (-9) c0 RHalfUp) (mkDec Finite false (-1) 9995) 0 = false /\
  quant_coeff RHalfUp (mkDec Finite false (-1) 9995) 0 = 1000.
Proof. vm_compute. repeat split. Qed.

Example C09_example :   (* Quantize(0.01, 0) under RoundUp is 1, under RoundDown 0; -0.01 under Floor is -1 *)
  (quantize_inner go_est (mkCtx 5 9 (-9) c0 RUp) (mkDec Finite false (-2) 1) 0,
   quantize_inner go_est (mkCtx 5 9 (-9) c0 RDown) (mkDec Finite false (-2) 1) 0,
   quantize_inner go_est (mkCtx 5 9 (-9) c0 RFloor) (mkDec Finite true (-2) 1) 0)
  = (Ok (mkDec Finite false 0 1, fInexact ||| fRounded), Ok (mkDec Finite false 0 0, fInexact ||| fRounded),
     Ok (mkDec Finite true 0 1, fInexact ||| fRounded)).
Proof. vm_compute. reflexivity. Qed.
