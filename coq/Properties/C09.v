(* C09 - Quantize and RoundToIntegral produce the requested exponent, correctly rounded.
   Statements only; proofs in Proofs/QuantizeProofs.v.  Proven for every operand: the branch where the
   target exponent is finer than or equal to the operand's (exact), the branch where EVERY digit is
   discarded (x more than one digit below the quantum: 0 or 1 unit by the mode and the sign - the case
   the test vectors do not contain), zeros, and the relation between RoundToIntegralValue/Exact.
   NOT proven (named _partial): the branch that drops some but not all digits through an inner Round
   with a scratch context, and the guards of Context.Quantize; these are decided on every result of the
   implementation by the exact integer oracle (x / 10^e rounded by Spec-Z rndZ, invalid iff more than
   Precision digits or e outside [Etiny, Emax]) and by bit-for-bit correspondence with the model. *)
From Coq Require Import ZArith Bool.
From Apd Require Import Generated.Consts Model.Base Model.NumDigits Model.Decimal Model.Context Spec.SpecZ
  Proofs.Core Proofs.QuantizeProofs.
Open Scope Z_scope.

Theorem C09_quantize_finer_exact est c v e : e <= exp v -> exp v - e <= MaxExponent ->
  quantize_inner est c v e = Ok (mkDec (form_of v) (neg v) e (coeff v * 10 ^ (exp v - e)), c0).
Proof. exact (quantize_finer est c v e). Qed.
Print Assumptions C09_quantize_finer_exact.

Theorem C09_quantize_every_digit_discarded_partial est : est_in_range est -> forall c v e,
  form_of v = Finite -> 0 < coeff v -> ndigits (coeff v) < e - exp v ->
  quantize_inner est c v e =
    Ok (mkDec Finite (neg v) e (rndZ (rounding c) (neg v) (coeff v) (10 ^ (e - exp v))), fInexact ||| fRounded)
  /\ 0 <= rndZ (rounding c) (neg v) (coeff v) (10 ^ (e - exp v)) <= 1.
Proof. exact (quantize_all_discarded est). Qed.
Print Assumptions C09_quantize_every_digit_discarded_partial.

Theorem C09_quantize_zero est : est_in_range est -> forall c v e,
  form_of v = Finite -> coeff v = 0 -> 1 < e - exp v ->
  quantize_inner est c v e = Ok (mkDec Finite (neg v) e 0, c0).
Proof. exact (quantize_zero_coarser est). Qed.
Print Assumptions C09_quantize_zero.

(* RoundToIntegralValue is RoundToIntegralExact without Inexact/Rounded *)
Theorem C09_rti_value_vs_exact est c x : form_of x = Finite ->
  forall d f, quantize_inner est c x 0 = Ok (d, f) ->
  ctx_rti_value est c x = Ok (finish c d (clear_inexact_rounded f)) /\ ctx_rti_exact est c x = Ok (finish c d f).
Proof. exact (rti_value_clears_flags est c x). Qed.
Print Assumptions C09_rti_value_vs_exact.

Example C09_example :   (* Quantize(0.01, 0) under RoundUp is 1, under RoundDown 0; -0.01 under Floor is -1 *)
  (quantize_inner go_est (mkCtx 5 9 (-9) c0 RUp) (mkDec Finite false (-2) 1) 0,
   quantize_inner go_est (mkCtx 5 9 (-9) c0 RDown) (mkDec Finite false (-2) 1) 0,
   quantize_inner go_est (mkCtx 5 9 (-9) c0 RFloor) (mkDec Finite true (-2) 1) 0)
  = (Ok (mkDec Finite false 0 1, fInexact ||| fRounded), Ok (mkDec Finite false 0 0, fInexact ||| fRounded),
     Ok (mkDec Finite true 0 1, fInexact ||| fRounded)).
Proof. vm_compute. reflexivity. Qed.
