(* C20 - rounding modes bracket each other and rounding is monotone.  Statements only; proofs in
   Proofs/ModesProofs.v.  The theorems are about the specification's integer rounding rndZ of the exact
   magnitude n / k with sign ng: Properties/C01.v (and C09) reduce the model's Round, setExponent and
   Quantize to exactly this function, so the relations hold between the model's results under the eight
   modes wherever those theorems apply.  On the implementation the same relations - plus commutativity,
   Sub = Add of the negation, sign mirror and power-of-ten scaling - are checked directly on its own
   results (Oracle/JudgeModes.v), without model or specification, except for the adjacency test, which
   uses the specification to decide that no representable value lies between floor and ceiling. *)
From Coq Require Import ZArith Bool.
From Apd Require Import Generated.Consts Model.Base Model.NumDigits Spec.SpecZ Proofs.RoundBasics Proofs.ModesProofs.
Open Scope Z_scope.

Theorem C20_floor_le_every_mode_le_ceiling mode ng n k : 0 <= n -> 0 < k ->
  sval ng (rndZ RFloor ng n k) <= sval ng (rndZ mode ng n k) <= sval ng (rndZ RCeiling ng n k).
Proof. exact (floor_le_all_le_ceiling mode ng n k). Qed.
Print Assumptions C20_floor_le_every_mode_le_ceiling.

Theorem C20_down_le_every_mode_le_up mode ng n k : 0 <= n -> 0 < k ->
  rndZ RDown ng n k <= rndZ mode ng n k <= rndZ RUp ng n k.
Proof. exact (down_le_all_le_up mode ng n k). Qed.
Print Assumptions C20_down_le_every_mode_le_up.

Theorem C20_every_mode_returns_down_or_up mode ng n k : 0 <= n -> 0 < k ->
  rndZ mode ng n k = rndZ RDown ng n k \/ rndZ mode ng n k = rndZ RUp ng n k.
Proof. exact (every_mode_is_down_or_up mode ng n k). Qed.
Print Assumptions C20_every_mode_returns_down_or_up.

Theorem C20_all_modes_coincide_when_exact m1 m2 ng n k : n mod k = 0 -> rndZ m1 ng n k = rndZ m2 ng n k.
Proof. exact (exact_all_modes_coincide m1 m2 ng n k). Qed.
Print Assumptions C20_all_modes_coincide_when_exact.

Theorem C20_down_differs_from_up_when_inexact ng n k : n mod k <> 0 -> rndZ RUp ng n k = rndZ RDown ng n k + 1.
Proof. exact (inexact_down_differs_from_up ng n k). Qed.
Print Assumptions C20_down_differs_from_up_when_inexact.

Theorem C20_floor_ceiling_equal_or_adjacent ng n k : 0 <= n -> 0 < k ->
  sval ng (rndZ RCeiling ng n k) = sval ng (rndZ RFloor ng n k) \/
  sval ng (rndZ RCeiling ng n k) = sval ng (rndZ RFloor ng n k) + 1.
Proof. exact (floor_ceiling_adjacent ng n k). Qed.
Print Assumptions C20_floor_ceiling_equal_or_adjacent.

Theorem C20_sign_mirror mode ng n k : rndZ (mirror mode) (negb ng) n k = rndZ mode ng n k.
Proof. exact (mirror_negation mode ng n k). Qed.
Print Assumptions C20_sign_mirror.

Theorem C20_rounding_monotone mode ng n1 n2 k : 0 <= n1 <= n2 -> 0 < k -> rndZ mode ng n1 k <= rndZ mode ng n2 k.
Proof. exact (rndZ_monotone mode ng n1 n2 k). Qed.
Print Assumptions C20_rounding_monotone.

Example C20_example : (rndZ RFloor true 15 10, rndZ RCeiling true 15 10, rndZ RHalfEven true 15 10, rndZ R05Up false 101 10) = (2, 1, 2, 11).
Proof. vm_compute. reflexivity. Qed.
