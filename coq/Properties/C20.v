(* C20 - rounding modes bracket each other and rounding is monotone.  Statements only; proofs in
   Proofs/ModesProofs.v.  The theorems are about the specification's integer rounding rndZ of the exact
   magnitude n / k with sign ng: Properties/C01.v (and C09) reduce the model's Round, setExponent and
   Quantize to exactly this function, so the relations hold between the model's results under the eight
   modes wherever those theorems apply.  On the implementation the same relations - plus commutativity,
   Sub = Add of the negation, sign mirror and power-of-ten scaling - are checked directly on its own
   results (Oracle/JudgeModes.v), without model or specification, except for the adjacency test, which
   uses the specification to decide that no representable value lies between floor and ceiling. *)
From Coq Require Import ZArith Bool.
From Coq Require Import Reals.
From Apd Require Import Generated.Consts Model.Base Model.NumDigits Spec.SpecZ Spec.SpecR Proofs.RoundBasics Proofs.ModesProofs Proofs.ModesR.
Open Scope Z_scope.

Theorem C20_floor_le_every_mode_le_ceiling mode ng n k : 0 <= n -> 0 < k ->
  sval ng (rndZ RFloor ng n k) <= sval ng (rndZ mode ng n k) <= sval ng (rndZ RCeiling ng n k).
Proof. exact (floor_le_all_le_ceiling mode ng n k). Qed.
Print Assumptions C20_floor_le_every_mode_le_ceiling.

Theorem C20_down_le_every_mode_le_up mode ng n k : 0 <= n -> 0 < k ->
  rndZ RDown ng n k <= rndZ mode ng n k <= rndZ RUp ng n k.
Proof. exact (down_le_all_le_up mode ng n k). Qed.
Print Assumptions C20_down_le_every_mode_le_up.

Theorem C20_every_mode_returns_down_or_up mode ng n k : 0 <= n -> 0 < k ->
  rndZ mode ng n k = rndZ RDown ng n k \/ rndZ mode ng n k = rndZ RUp ng n k.
Proof. exact (every_mode_is_down_or_up mode ng n k). Qed.
Print Assumptions C20_every_mode_returns_down_or_up.

Theorem C20_all_modes_coincide_when_exact m1 m2 ng n k : n mod k = 0 -> rndZ m1 ng n k = rndZ m2 ng n k.
Proof. exact (exact_all_modes_coincide m1 m2 ng n k). Qed.
Print Assumptions C20_all_modes_coincide_when_exact.

Theorem C20_down_differs_from_up_when_inexact ng n k : n mod k <> 0 -> rndZ RUp ng n k = rndZ RDown ng n k + 1.
Proof. exact (inexact_down_differs_from_up ng n k). Qed.
Print Assumptions C20_down_differs_from_up_when_inexact.

Theorem C20_floor_ceiling_equal_or_adjacent ng n k : 0 <= n -> 0 < k ->
  sval ng (rndZ RCeiling ng n k) = sval ng (rndZ RFloor ng n k) \/
  sval ng (rndZ RCeiling ng n k) = sval ng (rndZ RFloor ng n k) + 1.
Proof. exact (floor_ceiling_adjacent ng n k). Qed.
Print Assumptions C20_floor_ceiling_equal_or_adjacent.

Theorem C20_sign_mirror mode ng n k : rndZ (mirror mode) (negb ng) n k = rndZ mode ng n k.
Proof. exact (mirror_negation mode ng n k). Qed.
Print Assumptions C20_sign_mirror.

Theorem C20_rounding_monotone mode ng n1 n2 k : 0 <= n1 <= n2 -> 0 < k -> rndZ mode ng n1 k <= rndZ mode ng n2 k.
Proof. exact (rndZ_monotone mode ng n1 n2 k). Qed.
Print Assumptions C20_rounding_monotone.

Example C20_example : (rndZ RFloor true 15 10, rndZ RCeiling true 15 10, rndZ RHalfEven true 15 10, rndZ R05Up false 101 10) = (2, 1, 2, 11).
Proof. vm_compute. reflexivity. Qed.

(* ---------- whole results (not just the integer rounding step) ----------
   For ONE exact value E and ONE context, the specification's results under RoundFloor, any mode and
   RoundCeiling - the results the model's operations are proven to return (C01: op_post) - are ordered as real
   numbers, every mode returns the Floor or the Ceiling result, and overflow to infinity is monotone.  Proven
   through Spec-R: round radix10 (FLT_exp Etiny Precision) with Flocq's round-down / round-up theory. *)
Theorem C20_context_rounding_floor_le_mode_le_ceiling p emin_ m x : (1 <= p)%Z ->
  (round_ctx p emin_ RFloor x <= round_ctx p emin_ m x <= round_ctx p emin_ RCeiling x)%R /\
  (round_ctx p emin_ m x = round_ctx p emin_ RFloor x \/ round_ctx p emin_ m x = round_ctx p emin_ RCeiling x).
Proof. intros Hp. split; [exact (modes_bracket_R p emin_ Hp m x)|exact (modes_one_of_two_R p emin_ m x)]. Qed.
Print Assumptions C20_context_rounding_floor_le_mode_le_ceiling.

Theorem C20_results_of_one_exact_value_bracket p emin_ emax_ m (E : exact) : (1 <= p)%Z -> (0 < xnum E)%Z -> (0 < xden E)%Z ->
  let SF := spec_round_nz p emin_ emax_ RFloor E in
  let SM := spec_round_nz p emin_ emax_ m E in
  let SC := spec_round_nz p emin_ emax_ RCeiling E in
  (forall f v c, sres_R (s_res SF) = Some f -> sres_R (s_res SM) = Some v -> sres_R (s_res SC) = Some c ->
     s_overflow SF = false -> s_overflow SM = false -> s_overflow SC = false -> (f <= v <= c)%R) /\
  (xneg E = false -> (s_overflow SF = true -> s_overflow SM = true) /\ (s_overflow SM = true -> s_overflow SC = true)) /\
  (xneg E = true -> (s_overflow SC = true -> s_overflow SM = true) /\ (s_overflow SM = true -> s_overflow SF = true)).
Proof. exact (spec_results_bracket p emin_ emax_ m E). Qed.
Print Assumptions C20_results_of_one_exact_value_bracket.

(* Round is monotone across the whole line, subnormal range included (Round05Up: on one binade, above) *)
Theorem C20_context_rounding_monotone p emin_ m x y : (1 <= p)%Z -> m <> R05Up -> (x <= y)%R ->
  (round_ctx p emin_ m x <= round_ctx p emin_ m y)%R.
Proof. exact (round_ctx_monotone p emin_ m x y). Qed.
Print Assumptions C20_context_rounding_monotone.

(* ---- operand transformations on the model of the Context operations (no oracle involved) ---- *)
From Apd Require Import Generated.Consts Model.Decimal Model.Context Proofs.SetExponent Proofs.Commute.
Open Scope Z_scope.

(* Sub(x, y) is Add(x, -y): the whole result (value, Condition, error), for every x, every non-NaN y (a NaN operand is
   propagated with its own sign), every context *)
Theorem C20_sub_is_add_of_negation est c x y : is_nan y = false ->
  ctx_add est c x y true = ctx_add est c x (flip_sign y) false.
Proof. exact (sub_is_add_of_negation est c x y). Qed.
Print Assumptions C20_sub_is_add_of_negation.

(* Add and Mul commute on finite operands inside the exponent limits: the whole result, every context and mode *)
Theorem C20_add_commutes est c x y : form_of x = Finite -> form_of y = Finite -> Z.abs (exp x - exp y) <= MaxExponent ->
  ctx_add est c x y false = ctx_add est c y x false.
Proof. exact (add_commutes est c x y). Qed.
Print Assumptions C20_add_commutes.
Theorem C20_mul_commutes est c x y : form_of x = Finite -> form_of y = Finite -> in_lim (exp x) -> in_lim (exp y) ->
  ctx_mul est c x y = ctx_mul est c y x.
Proof. exact (mul_commutes est c x y). Qed.
Print Assumptions C20_mul_commutes.

(* negating both operands mirrors the result under the mirrored mode: the exact sum of the negated operands is the negated
   exact sum (non-zero sums), and the specified result of a negated exact value under the mirrored mode is the specified
   result with the opposite sign - same coefficient, exponent, Inexact/Subnormal/Overflow, subnormal range and overflow
   included.  (C01: the model's Add returns the specified result of the exact sum.) *)
From Apd Require Import Proofs.SpecMirror.
Theorem C20_negated_operands_negate_the_exact_sum x y sub fm fm' : xnum (exact_add x y sub fm) <> 0 ->
  exact_add (flip_dec x) (flip_dec y) sub fm' = flip_exact (exact_add x y sub fm).
Proof. exact (exact_add_flip x y sub fm fm'). Qed.
Print Assumptions C20_negated_operands_negate_the_exact_sum.
Theorem C20_negation_mirrors_the_specified_result p emin_ emax_ mode E :
  spec_round_nz p emin_ emax_ (mirror mode) (flip_exact E) = flip_sround (spec_round_nz p emin_ emax_ mode E).
Proof. exact (spec_mirror p emin_ emax_ mode E). Qed.
Print Assumptions C20_negation_mirrors_the_specified_result.

(* scaling by a power of ten scales the specified result while both stay in the normal range and neither overflows: the
   coefficient and the flags are unchanged, the exponent moves by j.  (Mul/Quo: scaling one operand scales the exact
   product/quotient by construction of exact_mul / exact_quo; Add/Sub/Rem: scaling both operands.) *)
Theorem C20_scaling_scales_the_specified_result p emin_ emax_ mode E j :
  let k := mag_frac (xnum E) (xden E) + xexp E in
  emin_ <= k - 1 -> emin_ <= k + j - 1 ->
  s_overflow (spec_round_nz p emin_ emax_ mode E) = false ->
  s_overflow (spec_round_nz p emin_ emax_ mode (shift_exact E j)) = false ->
  spec_round_nz p emin_ emax_ mode (shift_exact E j) = shift_sround (spec_round_nz p emin_ emax_ mode E) j.
Proof. exact (spec_scale p emin_ emax_ mode E j). Qed.
Print Assumptions C20_scaling_scales_the_specified_result.
