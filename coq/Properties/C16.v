(* C16 - BigInt behaves exactly like math/big.Int.  Statements only; proofs in Proofs/BigIntProofs.v.
   Model (Model/BigInt.v): the inline-array / negSentinel / heap representation, innerAsUint64,
   updateInnerFromUint64, updateInner, the four uint64 fast paths and each wrapper as written.
   math/big is specified as Z (Quo/Rem truncated = Z.quot/Z.rem, BitLen, Sqrt, shifts).  Whether
   math/big re-allocated the inline array in a slow path is an oracle bit r: EVERY theorem holds for
   every value of it.  [good b v]: the abstract value of representation b is v AND the representation
   invariant holds (words < 2^64, an inline negative is non-zero: zero is never negative).
   Methods outside the model (And, Or, Xor, Not, Exp, GCD, Div, Mod, ...) are all of the shape
   inner / math/big call / updateInner, covered by upd_ok; they are compared with a math/big mirror. *)
From Coq Require Import ZArith Bool List.
From Apd Require Import Generated.Consts Model.Base Model.BigInt Proofs.BigIntProofs.
Open Scope Z_scope.

Theorem C16_slow_path_update z v r : good (upd z v r) v.
Proof. exact (upd_ok z v r). Qed.
Print Assumptions C16_slow_path_update.

Theorem C16_add z x y r : binv x = true -> binv y = true -> good (b_add z x y r) (bval x + bval y).
Proof. exact (b_add_ok z x y r). Qed.
Print Assumptions C16_add.
Theorem C16_sub z x y r : binv x = true -> binv y = true -> good (b_sub z x y r) (bval x - bval y).
Proof. exact (b_sub_ok z x y r). Qed.
Print Assumptions C16_sub.
Theorem C16_mul z x y r : binv x = true -> binv y = true -> good (b_mul z x y r) (bval x * bval y).
Proof. exact (b_mul_ok z x y r). Qed.
Print Assumptions C16_mul.
Theorem C16_quo z x y r : binv x = true -> binv y = true ->
  match b_quo z x y r with Some q => good q (Z.quot (bval x) (bval y)) /\ bval y <> 0 | None => bval y = 0 end.
Proof. exact (b_quo_ok z x y r). Qed.
Print Assumptions C16_quo.
Theorem C16_rem z x y r : binv x = true -> binv y = true ->
  match b_rem z x y r with Some q => good q (Z.rem (bval x) (bval y)) /\ bval y <> 0 | None => bval y = 0 end.
Proof. exact (b_rem_ok z x y r). Qed.
Print Assumptions C16_rem.
Theorem C16_quorem z rm x y r1 r2 : binv x = true -> binv y = true ->
  match b_quorem z rm x y r1 r2 with
  | Some (q, m) => good q (Z.quot (bval x) (bval y)) /\ good m (Z.rem (bval x) (bval y)) /\ bval y <> 0
  | None => bval y = 0
  end.
Proof. exact (b_quorem_ok z rm x y r1 r2). Qed.
Print Assumptions C16_quorem.
Theorem C16_set z x r : binv x = true -> good (b_set z x r) (bval x).
Proof. exact (b_set_ok z x r). Qed.
Print Assumptions C16_set.
Theorem C16_abs z x r : binv x = true -> good (b_abs z x r) (Z.abs (bval x)).
Proof. exact (b_abs_ok z x r). Qed.
Print Assumptions C16_abs.
Theorem C16_neg z x r : binv x = true -> good (b_neg z x r) (- bval x).
Proof. exact (b_neg_ok z x r). Qed.
Print Assumptions C16_neg.
Theorem C16_set_int64 v : - 2 ^ 63 <= v < 2 ^ 63 -> good (b_set_int64 v) v.
Proof. exact (b_set_int64_ok v). Qed.
Print Assumptions C16_set_int64.
Theorem C16_set_string_decimal z v r : good (b_set_dec z v r) v.
Proof. exact (b_set_dec_ok z v r). Qed.
Print Assumptions C16_set_string_decimal.

(* scalar results *)
Theorem C16_sign z : binv z = true -> b_sign z = Z.sgn (bval z).
Proof. exact (b_sign_ok z). Qed.
Print Assumptions C16_sign.
Theorem C16_cmp z y : binv z = true -> binv y = true -> b_cmp z y = z_cmp (bval z) (bval y).
Proof. exact (b_cmp_ok z y). Qed.
Print Assumptions C16_cmp.
Theorem C16_cmp_abs z y : binv z = true -> binv y = true -> b_cmp_abs z y = z_cmp (Z.abs (bval z)) (Z.abs (bval y)).
Proof. exact (b_cmp_abs_ok z y). Qed.
Print Assumptions C16_cmp_abs.
Theorem C16_bitlen z : binv z = true -> b_bitlen z = z_bitlen (bval z).
Proof. exact (b_bitlen_ok z). Qed.
Print Assumptions C16_bitlen.
Theorem C16_is_int64 z : binv z = true -> b_is_int64 z = ((- 2 ^ 63 <=? bval z) && (bval z <? 2 ^ 63)).
Proof. exact (b_is_int64_ok z). Qed.
Print Assumptions C16_is_int64.
Theorem C16_is_uint64 z : binv z = true -> b_is_uint64 z = ((0 <=? bval z) && (bval z <? W64)).
Proof. exact (b_is_uint64_ok z). Qed.
Print Assumptions C16_is_uint64.
Theorem C16_int64 z : binv z = true -> - 2 ^ 63 <= bval z < 2 ^ 63 -> b_int64 z = bval z.
Proof. exact (b_int64_ok z). Qed.
Print Assumptions C16_int64.
Theorem C16_uint64 z : binv z = true -> 0 <= bval z < W64 -> b_uint64 z = bval z.
Proof. exact (b_uint64_ok z). Qed.
Print Assumptions C16_uint64.

(* arbitrary method sequences over a register file: whatever registers coincide (every alias pattern),
   whatever the oracle bits, the abstraction commutes with the Z-level interpreter and the invariant is
   preserved in every register; inline -> heap -> inline transitions are just steps *)
Theorem C16_any_method_sequence p rs : Forall (fun b => binv b = true) rs -> Forall (fun s => step_wf (fst (fst s))) p ->
  match brun rs p, zrun (map bval rs) p with
  | Some rs', Some zs' => map bval rs' = zs' /\ Forall (fun b => binv b = true) rs'
  | None, None => True
  | _, _ => False
  end.
Proof. exact (brun_refines p rs). Qed.
Print Assumptions C16_any_method_sequence.

Example C16_no_negative_zero :     (* Mul(0, -5), Quo(-1, 5), Rem(-10, 5), Neg(0): the sign is cleared *)
  (b_mul b_zero b_zero (b_set_int64 (-5)) false, b_quo b_zero (b_set_int64 (-1)) (b_set_int64 5) false,
   b_rem b_zero (b_set_int64 (-10)) (b_set_int64 5) false, b_neg b_zero b_zero false)
  = (BInline false 0 0, Some (BInline false 0 0), Some (BInline false 0 0), BInline false 0 0).
Proof. vm_compute. reflexivity. Qed.
