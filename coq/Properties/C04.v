(* C04 - operations are total: no panic and no hang on any well-formed input.  Statements only; proofs in
   Proofs/TotalProofs.v.  [total r]: the model returned a value (not Panic, not OutOfFuel).  In the model
   every Go panic source is an explicit Panic result (nil dereference, index out of range in the power
   and digit tables, "unexpected negative" in roundAddOne, math/big division by zero) and every loop has
   explicit fuel.  Covered: NumDigits, Cmp, CmpTotal, Modf, Reduce, Int64, and every single-rounding Context
   operation (Round, Abs, Neg, Add, Sub, Mul, Quo, QuoInteger, Rem, Quantize, RoundToIntegral*, Ceil, Floor,
   Reduce) inside the limits of its functional theorem, and the parsers on EVERY byte string.
   PARTIAL with respect to the Go runtime and to the iterative functions (Sqrt and Cbrt are modelled with explicit
   fuel but no termination theorem is proven; Exp, Ln, Log10, Pow are not modelled): see the evidence for how the
   implementation itself is exercised (recover + watchdog). *)
From Coq Require Import ZArith Bool.
From Apd Require Import Generated.Consts Model.Base Model.NumDigits Model.Decimal Model.Context Model.Text Model.Conv Spec.SpecZ
  Proofs.Core Proofs.SetExponent Proofs.RoundSpec Proofs.OpsProofs Proofs.OpsProjections Proofs.DivProofs Proofs.QuantizeProofs Proofs.QuantizeMid Proofs.CeilFloor Proofs.TotalProofs Proofs.Accept Proofs.TotalMore Model.Roots Model.Exp Model.Ln Model.LnHalley Proofs.LoopFuel.
Open Scope Z_scope.

Theorem C04_numdigits_total est : est_in_range est -> forall b, total (num_digits_with est b).
Proof. exact (num_digits_total est). Qed.
Print Assumptions C04_numdigits_total.
Theorem C04_cmp_total est : est_in_range est -> forall d x, is_nan d = false -> is_nan x = false -> 0 <= coeff d -> 0 <= coeff x -> total (dcmp est d x).
Proof. exact (cmp_total_ est). Qed.
Print Assumptions C04_cmp_total.
Theorem C04_cmptotal_total est : est_in_range est -> forall d x, 0 <= coeff d -> 0 <= coeff x -> total (cmp_total est d x).
Proof. exact (cmptotal_total est). Qed.
Print Assumptions C04_cmptotal_total.
Theorem C04_modf_total est : est_in_range est -> forall d, 0 <= coeff d -> total (modf est d).
Proof. exact (modf_total est). Qed.
Print Assumptions C04_modf_total.
Theorem C04_reduce_total est x : 0 <= coeff x -> total (dreduce est x).
Proof. exact (reduce_total est x). Qed.
Print Assumptions C04_reduce_total.
Theorem C04_int64_total est : est_in_range est -> forall d, form_of d = Finite -> 0 <= coeff d -> total (dint64 est d).
Proof. exact (int64_total est). Qed.
Print Assumptions C04_int64_total.
Theorem C04_round_total est : est_in_range est -> forall c x, ctx_ok c -> finite_nn x -> exact_in_limits c (exact_of_dec x) -> total (ctx_round_op est c x).
Proof. exact (round_total est). Qed.
Print Assumptions C04_round_total.
Theorem C04_abs_total est : est_in_range est -> forall c x, ctx_ok c -> finite_nn x -> exact_in_limits c (exact_abs x) -> total (ctx_abs est c x).
Proof. exact (abs_total est). Qed.
Print Assumptions C04_abs_total.
Theorem C04_neg_total est : est_in_range est -> forall c x, ctx_ok c -> finite_nn x -> exact_in_limits c (exact_neg x) -> total (ctx_neg est c x).
Proof. exact (neg_total est). Qed.
Print Assumptions C04_neg_total.
Theorem C04_add_sub_total est : est_in_range est -> forall c x y s, ctx_ok c -> finite_nn x -> finite_nn y ->
  Z.abs (exp x - exp y) <= MaxExponent -> exact_in_limits c (exact_add x y s (rounder_eqb (rounding c) RFloor)) -> total (ctx_add est c x y s).
Proof. exact (add_total est). Qed.
Print Assumptions C04_add_sub_total.
Theorem C04_quo_integer_total est : est_in_range est -> forall c x y, 1 <= prec c -> finite_nn x -> finite_nn y -> coeff y <> 0 ->
  Z.abs (exp x - exp y) <= MaxExponent -> total (ctx_quo_integer est c x y).
Proof. exact (quo_integer_total est). Qed.
Print Assumptions C04_quo_integer_total.

(* the remaining modelled operations, inside the limits under which their functional theorems hold *)
Theorem C04_mul_total est : est_in_range est -> forall c x y, mul_hyps c x y -> total (ctx_mul est c x y).
Proof. exact (mul_total est). Qed.
Print Assumptions C04_mul_total.
Theorem C04_quo_total est : est_in_range est -> forall c x y, quo_hyps c x y -> total (ctx_quo est c x y).
Proof. exact (quo_total est). Qed.
Print Assumptions C04_quo_total.
Theorem C04_rem_total est : est_in_range est -> forall c x y, ctx_ok c -> finite_nn x -> finite_nn y -> coeff y <> 0 ->
  Z.abs (exp x - exp y) <= MaxExponent ->
  exact_in_limits c (mkExact (neg x) (al_a x y mod al_b x y) 1 (al_exp x y)) -> total (ctx_rem est c x y).
Proof. exact (rem_total est). Qed.
Print Assumptions C04_rem_total.
Theorem C04_quantize_total est : est_in_range est -> forall c x e, ctx_ok c -> form_of x = Finite -> 0 <= coeff x ->
  exp x - e < MaxExponent -> e - exp x < MaxExponent -> ndigits (coeff x) < MaxExponent ->
  in_lim e -> in_lim (e + ndigits (quant_coeff (rounding c) x e) - 1) -> total (ctx_quantize est c x e).
Proof. exact (quantize_total est). Qed.
Print Assumptions C04_quantize_total.
Theorem C04_round_to_integral_total est : est_in_range est -> forall c x, form_of x = Finite -> 0 <= coeff x ->
  exp x < MaxExponent -> - exp x < MaxExponent -> ndigits (coeff x) < MaxExponent ->
  total (ctx_rti_exact est c x) /\ total (ctx_rti_value est c x).
Proof. exact (rti_total est). Qed.
Print Assumptions C04_round_to_integral_total.
Theorem C04_ceil_floor_total est : est_in_range est -> forall c x, ctx_ok c -> finite_nn x ->
  ndigits (int_part x + 1) < MaxExponent -> total (ctx_ceil est c x) /\ total (ctx_floor est c x).
Proof. exact (ceil_floor_total est). Qed.
Print Assumptions C04_ceil_floor_total.
Theorem C04_context_reduce_total est : est_in_range est -> forall c x, ctx_ok c -> finite_nn x ->
  exact_in_limits c (exact_of_dec x) -> total (ctx_reduce est c x).
Proof. exact (ctx_reduce_total est). Qed.
Print Assumptions C04_context_reduce_total.
(* the parsers never panic, on ANY byte string *)
Theorem C04_new_from_string_total est : est_in_range est -> forall s, total (new_from_string est s).
Proof. exact (new_from_string_total est). Qed.
Print Assumptions C04_new_from_string_total.

(* text can never produce an ill-formed value *)
Theorem C04_parsed_value_well_formed s d : set_string_raw s = Some d ->
  0 <= coeff d /\ (form_of d <> Finite -> coeff d = 0 /\ exp d = 0).
Proof. exact (parse_well_formed s d). Qed.
Print Assumptions C04_parsed_value_well_formed.

(* ... through the entry points (NewFromString, SetString, UnmarshalText, Scan), for EVERY byte string: a value
   comes back only with no condition and no error, and it has a non-negative coefficient, a valid form, and -
   when finite - exponent and adjusted exponent inside the package limits *)
Theorem C04_new_from_string_well_formed est : est_in_range est -> forall s d f e,
  new_from_string est s = Ok (Some (d, f, e)) ->
  set_string_raw s = Some d /\ f = c0 /\ e = ENone /\ 0 <= coeff d /\
  (form_of d = Finite -> in_lim (exp d) /\ in_lim (exp d + ndigits (coeff d) - 1)) /\
  (form_of d <> Finite -> coeff d = 0 /\ exp d = 0).
Proof. exact (new_from_string_well_formed est). Qed.
Print Assumptions C04_new_from_string_well_formed.

(* the negative NumDigits argument wider than 128 bits that used to dereference nil *)
Example C04_numdigits_negative_wide : num_digits (- 2 ^ 200) = Ok 61.
Proof. vm_compute. reflexivity. Qed.
Example C04_sign_in_mantissa_rejected : set_string_raw [46; 45; 53] = None.      (* ".-5" *)
Proof. vm_compute. reflexivity. Qed.

(* The loops bounded by loop.done (Cbrt's Newton iteration, Ln's Halley iteration) end on their own: loop.done counts the
   passes and fails at maxIterations, so fuel beyond the remaining passes changes nothing - for every operand, context and
   value of the float-derived inputs.  With the fuel the models use (Precision + 14 against maxIterations = Precision + 11)
   the fuel never decides. *)
Theorem C04_cbrt_newton_ends_by_itself est k fuel nc lp mi ax z pz i : 0 <= i < mi -> mi - i <= Z.of_nat fuel ->
  cbrt_newton est (k + fuel) nc lp mi ax z pz i = cbrt_newton est fuel nc lp mi ax z pz i.
Proof. exact (cbrt_newton_any_fuel est k fuel nc lp mi ax z pz i). Qed.
Print Assumptions C04_cbrt_newton_ends_by_itself.
Theorem C04_ln_halley_ends_by_itself est k fuel nc lp mi z exps a pz i : 0 <= i < mi -> mi - i <= Z.of_nat fuel ->
  ln_halley est (k + fuel) nc lp mi z exps a pz i = ln_halley est fuel nc lp mi z exps a pz i.
Proof. exact (ln_halley_any_fuel est k fuel nc lp mi z exps a pz i). Qed.
Print Assumptions C04_ln_halley_ends_by_itself.
Theorem C04_ln_model_fuel_never_decides est k c nc z exps a0 : 0 <= prec c ->
  ln_halley est (k + Z.to_nat (prec c + 14)) nc (prec c + 1) (10 + (prec c + 1)) z exps a0 (mkDec Finite false 0 0) 0 =
  ln_halley est (Z.to_nat (prec c + 14)) nc (prec c + 1) (10 + (prec c + 1)) z exps a0 (mkDec Finite false 0 0) 0.
Proof. exact (ln_model_fuel est k c nc z exps a0). Qed.
Print Assumptions C04_ln_model_fuel_never_decides.
(* Sqrt's Newton loop: p - 2 doubles on every pass up to maxp, so fuel beyond log2 of the target precision changes nothing;
   the model's fuel (log2 (workp + 5) + 4 passes from p = 3 to maxp = workp + 5) is beyond that *)
Theorem C04_sqrt_newton_ends_by_itself est fuel c p maxp f a :
  3 <= p <= maxp -> maxp - 2 <= (p - 2) * 2 ^ Z.of_nat fuel ->
  sqrt_loop est (S fuel) c p maxp f a = sqrt_loop est fuel c p maxp f a.
Proof. exact (sqrt_loop_fuel_enough est fuel c p maxp f a). Qed.
Print Assumptions C04_sqrt_newton_ends_by_itself.
Theorem C04_sqrt_model_fuel_never_decides est c workp f a : 7 <= workp ->
  let fuel := Z.to_nat (Z.log2 (workp + 5) + 4) in
  sqrt_loop est (S fuel) c 3 (workp + 5) f a = sqrt_loop est fuel c 3 (workp + 5) f a.
Proof. exact (sqrt_model_fuel est c workp f a). Qed.
Print Assumptions C04_sqrt_model_fuel_never_decides.
