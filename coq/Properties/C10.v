(* C10 - integer division and remainder satisfy the division identity.  Statements only; proofs in
   Proofs/DivProofs.v.  al_a x y, al_b x y are the coefficients of |x| and |y| scaled exactly to the
   smaller of the two exponents al_exp x y, so |x| = al_a * 10^al_exp and |y| = al_b * 10^al_exp. *)
From Coq Require Import ZArith Bool.
From Apd Require Import Generated.Consts Model.Base Model.NumDigits Model.Decimal Model.Context Spec.SpecZ
  Proofs.Core Proofs.SetExponent Proofs.RoundSpec Proofs.OpsProofs Proofs.DivProofs.
Open Scope Z_scope.

(* x = q*y + r exactly, 0 <= r < |y| (on the aligned magnitudes) *)
Theorem C10_division_identity x y : 0 <= coeff x -> 0 < coeff y ->
  al_a x y = (al_a x y / al_b x y) * al_b x y + al_a x y mod al_b x y /\ 0 <= al_a x y mod al_b x y < al_b x y.
Proof. exact (division_identity x y). Qed.
Print Assumptions C10_division_identity.

(* QuoInteger: q truncated toward zero, exponent 0, product sign; NaN + DivisionImpossible exactly when
   q needs more than Precision digits; no other condition; independent of the rounding mode; for any
   exponent gap up to the package limit and any digit counts *)
Theorem C10_quo_integer est : est_in_range est -> forall c x y,
  1 <= prec c -> finite_nn x -> finite_nn y -> coeff y <> 0 -> Z.abs (exp x - exp y) <= MaxExponent ->
  let q := al_a x y / al_b x y in
  ctx_quo_integer est c x y =
    Ok (if ndigits q >? prec c
        then finish c (mkDec NaN (xorb (neg x) (neg y)) 0 0) fDivisionImpossible
        else finish c (mkDec Finite (xorb (neg x) (neg y)) 0 q) c0).
Proof. exact (quo_integer_correct est). Qed.
Print Assumptions C10_quo_integer.

(* Rem: r with the sign of x, rounded once to the context (op_post: the C01/C02/C07 postcondition, so
   exact whenever r has at most Precision digits and the mode matters only when r must be rounded);
   NaN + DivisionImpossible exactly when q needs more than Precision digits *)
Theorem C10_rem est : est_in_range est -> forall c x y,
  ctx_ok c -> finite_nn x -> finite_nn y -> coeff y <> 0 -> Z.abs (exp x - exp y) <= MaxExponent ->
  let q := al_a x y / al_b x y in
  let E := mkExact (neg x) (al_a x y mod al_b x y) 1 (al_exp x y) in
  exact_in_limits c E ->
  if ndigits q >? prec c
  then ctx_rem est c x y = Ok (finish c d_nan fDivisionImpossible)
  else exists d f, ctx_rem est c x y = Ok (finish c d f) /\ op_post c E d f.
Proof. exact (rem_correct est). Qed.
Print Assumptions C10_rem.

(* non-vacuity *)
Example C10_example :
  let c := mkCtx 3 9 (-9) c0 RHalfEven in
  (rdec_of (ctx_quo_integer go_est c (mkDec Finite true 1 7) (mkDec Finite false (-1) 12)),
   rdec_of (ctx_rem go_est c (mkDec Finite true 1 7) (mkDec Finite false (-1) 12)))
  = (Some (mkDec Finite true 0 58), Some (mkDec Finite true (-1) 4)).
Proof. vm_compute. reflexivity. Qed.
