(* C15 - Cmp is the exact numeric order and CmpTotal is the documented total order.
   Statements only; proofs are in Proofs/CmpProofs.v.  [est] is the float estimate of NumDigits'
   big path: every theorem holds for every estimate in range (Proofs/Core.v: est_in_range). *)
From Coq Require Import ZArith.
From Apd Require Import Generated.Consts Model.Base Model.NumDigits Model.Decimal Spec.Order
  Proofs.Digits Proofs.Core Proofs.CmpProofs.
Open Scope Z_scope.

(* what "the sign of the exact numeric difference" means: both coefficients scaled exactly to any
   common exponent below both exponents, then compared as integers *)
Theorem C15_value_comparison_meaning c1 e1 c2 e2 m : m <= e1 -> m <= e2 ->
  vcmp c1 e1 c2 e2 = cmpZ' (c1 * 10 ^ (e1 - m)) (c2 * 10 ^ (e2 - m)).
Proof. exact (vcmp_common c1 e1 c2 e2 m). Qed.
Print Assumptions C15_value_comparison_meaning.

(* Decimal.Cmp (and Context.Cmp on non-NaN operands): sign of the exact difference for all non-NaN
   decimals - zeros of either sign and any exponent equal, infinities bounding all finite values -
   through the equal-exponent path, the digit-count shortcut and the rescaled comparison, for any
   exponent gap and any digit counts *)
Theorem C15_cmp_exact est : est_in_range est -> forall d x,
  is_nan d = false -> is_nan x = false -> 0 <= coeff d -> 0 <= coeff x ->
  dcmp est d x = Ok (cmp_spec d x).
Proof. exact (dcmp_spec est). Qed.
Print Assumptions C15_cmp_exact.

(* CmpTotal computes the documented order [total_spec] (Spec/Order.v) on ALL decimals *)
Theorem C15_cmptotal_is_total_spec est : est_in_range est -> forall d x,
  0 <= coeff d -> 0 <= coeff x -> cmp_total est d x = Ok (total_spec d x).
Proof. exact (cmp_total_spec est). Qed.
Print Assumptions C15_cmptotal_is_total_spec.

Theorem C15_total_reflexive a : 0 <= coeff a -> total_spec a a = 0.
Proof. exact (total_refl a). Qed.
Print Assumptions C15_total_reflexive.

Theorem C15_total_antisymmetric a b : 0 <= coeff a -> 0 <= coeff b -> total_spec b a = - total_spec a b.
Proof. exact (total_antisym a b). Qed.
Print Assumptions C15_total_antisymmetric.

Theorem C15_total_transitive a b c : 0 <= coeff a -> 0 <= coeff b -> 0 <= coeff c ->
  total_spec a b <= 0 -> total_spec b c <= 0 ->
  total_spec a c <= 0 /\ (total_spec a b < 0 \/ total_spec b c < 0 -> total_spec a c < 0).
Proof. exact (total_trans a b c). Qed.
Print Assumptions C15_total_transitive.

(* zero exactly on identical representations *)
Theorem C15_total_zero_iff_identical a b : 0 <= coeff a -> 0 <= coeff b ->
  (total_spec a b = 0 <->
   form_of a = form_of b /\ neg a = neg b /\
   (form_of a = Infinite \/ (coeff a = coeff b /\ (form_of a = Finite -> exp a = exp b)))).
Proof. exact (total_zero_iff a b). Qed.
Print Assumptions C15_total_zero_iff_identical.

(* agrees with Cmp on numerically different numbers *)
Theorem C15_total_agrees_with_cmp a b : 0 <= coeff a -> 0 <= coeff b ->
  form_of a = Finite -> form_of b = Finite -> cmp_spec a b <> 0 -> total_spec a b = cmp_spec a b.
Proof. exact (total_agrees_with_cmp a b). Qed.
Print Assumptions C15_total_agrees_with_cmp.

(* the form order -NaN < -sNaN < -Inf < finite < +Inf < +sNaN < +NaN, and the exponent tie-break
   (reversed for negatives), on concrete instances: non-vacuity of the hypotheses above *)
Example C15_form_order :
  let d f n := mkDec f n 0 1 in
  (total_spec (d NaN true) (d NaNSignaling true), total_spec (d NaNSignaling true) (d Infinite true),
   total_spec (d Infinite true) (d Finite true), total_spec (d Finite true) (d Finite false),
   total_spec (d Finite false) (d Infinite false), total_spec (d Infinite false) (d NaNSignaling false),
   total_spec (d NaNSignaling false) (d NaN false)) = (-1, -1, -1, -1, -1, -1, -1).
Proof. vm_compute. reflexivity. Qed.
Example C15_exponent_tiebreak :
  (total_spec (mkDec Finite false (-2) 100) (mkDec Finite false 0 1),    (* 1.00 < 1 *)
   total_spec (mkDec Finite true (-2) 100) (mkDec Finite true 0 1),      (* -1 < -1.00 *)
   cmp_spec (mkDec Finite false (-2) 100) (mkDec Finite true 0 0)) = (-1, 1, 1).
Proof. vm_compute. reflexivity. Qed.
Example C15_model_runs :
  dcmp go_est (mkDec Finite false 90000 5) (mkDec Finite false (-90000) 4) = Ok 1.
Proof. vm_compute. reflexivity. Qed.
