(* C02 - condition flags describe exactly what happened to the result.  Statements only.
   spec_flags computes, from the exact result E alone, whether it is inexact / subnormal / overflowed at
   the context; c02_post equates the four flags with it and adds the implications of the property
   (Inexact -> Rounded on finite results, Overflow -> Inexact) and the absence of every division,
   invalid-operation and system condition.  Division conditions in special cells: Properties/C08.v.
   QuoInteger/Rem: Properties/C10.v.  Quo, Quantize, Sqrt: oracle + correspondence only. *)
From Coq Require Import ZArith Bool.
From Apd Require Import Generated.Consts Model.Base Model.NumDigits Model.Decimal Model.Context Spec.SpecZ
  Proofs.Core Proofs.SetExponent Proofs.RoundSpec Proofs.OpsProofs Proofs.QuoProofs Proofs.SeRoundProofs Proofs.OpsProjections.
Open Scope Z_scope.

Theorem C02_round est : est_in_range est -> forall c (x : dec), ctx_ok c -> finite_nn x -> exact_in_limits c (exact_of_dec x) ->
  exists d f, ctx_round_op est c x = Ok (finish c d f) /\ c02_post c (exact_of_dec x) d f.
Proof. exact (c02_round est). Qed.
Print Assumptions C02_round.

Theorem C02_abs est : est_in_range est -> forall c (x : dec), ctx_ok c -> finite_nn x -> exact_in_limits c (exact_abs x) ->
  exists d f, ctx_abs est c x = Ok (finish c d f) /\ c02_post c (exact_abs x) d f.
Proof. exact (c02_abs est). Qed.
Print Assumptions C02_abs.

Theorem C02_neg est : est_in_range est -> forall c (x : dec), ctx_ok c -> finite_nn x -> exact_in_limits c (exact_neg x) ->
  exists d f, ctx_neg est c x = Ok (finish c d f) /\ c02_post c (exact_neg x) d f.
Proof. exact (c02_neg est). Qed.
Print Assumptions C02_neg.

Theorem C02_add_sub est : est_in_range est -> forall c (x y : dec) (sub : bool), ctx_ok c -> finite_nn x -> finite_nn y -> Z.abs (exp x - exp y) <= MaxExponent -> exact_in_limits c (exact_add x y sub (rounder_eqb (rounding c) RFloor)) ->
  exists d f, ctx_add est c x y sub = Ok (finish c d f) /\ c02_post c (exact_add x y sub (rounder_eqb (rounding c) RFloor)) d f.
Proof. exact (c02_add_sub est). Qed.
Print Assumptions C02_add_sub.

(* Mul: for EVERY pair of finite operands - the exact product in, above or below the context's exponent
   range (below Emin setExponent rounds once to Etiny and the round that follows finds nothing left to do) *)
Theorem C02_mul est : est_in_range est -> forall c (x y : dec), mul_hyps c x y ->
  exists d f, ctx_mul est c x y = Ok (finish c d f) /\ c02_post c (exact_mul x y) d f.
Proof. exact (c02_mul est). Qed.
Print Assumptions C02_mul.

(* Quo: for EVERY pair of finite operands with a non-zero divisor - any digit counts, any exponents, ties,
   all-nines carries, quotients in, above and below the normal range (where Quo keeps the remainder as a
   sticky digit and setExponent rounds once to Etiny).  quo_hyps: well-formed context and operands, and
   the exponent of the quotient (mag_frac: its decimal magnitude) stays inside the package limits with
   room for a carry ("subject only to the exponent limits"). *)
Theorem C02_quo est : est_in_range est -> forall c (x y : dec), quo_hyps c x y ->
  exists d f, ctx_quo est c x y = Ok (finish c d f) /\ c02_post c (exact_quo x y) d f.
Proof. exact (c02_quo est). Qed.
Print Assumptions C02_quo.
