(* C02 - condition flags describe exactly what happened to the result.  Statements only.
   spec_flags computes, from the exact result E alone, whether it is inexact / subnormal / overflowed at
   the context; c02_post equates the four flags with it and adds the implications of the property
   (Inexact -> Rounded on finite results, Overflow -> Inexact) and the absence of every division,
   invalid-operation and system condition.  Division conditions in special cells: Properties/C08.v.
   QuoInteger: Properties/C10.v; Quantize / RoundToIntegral: Properties/C09.v (Inexact iff digits were lost, then
   Rounded, never Underflow / Overflow, InvalidOperation exactly when the result does not fit).  Sqrt: oracle +
   correspondence only. *)
From Coq Require Import ZArith Bool.
From Apd Require Import Generated.Consts Model.Base Model.NumDigits Model.Decimal Model.Context Spec.SpecZ
  Proofs.Core Proofs.SetExponent Proofs.RoundSpec Proofs.OpsProofs Proofs.QuoProofs Proofs.SeRoundProofs Proofs.OpsProjections Proofs.DivProofs Proofs.FitProofs.
Open Scope Z_scope.

Theorem C02_round est : est_in_range est -> forall c (x : dec), ctx_ok c -> finite_nn x -> exact_in_limits c (exact_of_dec x) ->
  exists d f, ctx_round_op est c x = Ok (finish c d f) /\ c02_post c (exact_of_dec x) d f.
Proof. exact (c02_round est). Qed.
Print Assumptions C02_round.

Theorem C02_abs est : est_in_range est -> forall c (x : dec), ctx_ok c -> finite_nn x -> exact_in_limits c (exact_abs x) ->
  exists d f, ctx_abs est c x = Ok (finish c d f) /\ c02_post c (exact_abs x) d f.
Proof. exact (c02_abs est). Qed.
Print Assumptions C02_abs.

Theorem C02_neg est : est_in_range est -> forall c (x : dec), ctx_ok c -> finite_nn x -> exact_in_limits c (exact_neg x) ->
  exists d f, ctx_neg est c x = Ok (finish c d f) /\ c02_post c (exact_neg x) d f.
Proof. exact (c02_neg est). Qed.
Print Assumptions C02_neg.

Theorem C02_add_sub est : est_in_range est -> forall c (x y : dec) (sub : bool), ctx_ok c -> finite_nn x -> finite_nn y -> Z.abs (exp x - exp y) <= MaxExponent -> exact_in_limits c (exact_add x y sub (rounder_eqb (rounding c) RFloor)) ->
  exists d f, ctx_add est c x y sub = Ok (finish c d f) /\ c02_post c (exact_add x y sub (rounder_eqb (rounding c) RFloor)) d f.
Proof. exact (c02_add_sub est). Qed.
Print Assumptions C02_add_sub.

(* Mul: for EVERY pair of finite operands - the exact product in, above or below the context's exponent
   range (below Emin setExponent rounds once to Etiny and the round that follows finds nothing left to do) *)
Theorem C02_mul est : est_in_range est -> forall c (x y : dec), mul_hyps c x y ->
  exists d f, ctx_mul est c x y = Ok (finish c d f) /\ c02_post c (exact_mul x y) d f.
Proof. exact (c02_mul est). Qed.
Print Assumptions C02_mul.

(* Quo: for EVERY pair of finite operands with a non-zero divisor - any digit counts, any exponents, ties,
   all-nines carries, quotients in, above and below the normal range (where Quo keeps the remainder as a
   sticky digit and setExponent rounds once to Etiny).  quo_hyps: well-formed context and operands, and
   the exponent of the quotient (mag_frac: its decimal magnitude) stays inside the package limits with
   room for a carry ("subject only to the exponent limits"). *)
Theorem C02_quo est : est_in_range est -> forall c (x y : dec), quo_hyps c x y ->
  exists d f, ctx_quo est c x y = Ok (finish c d f) /\ c02_post c (exact_quo x y) d f.
Proof. exact (c02_quo est). Qed.
Print Assumptions C02_quo.

(* Rem: the conditions describe the one rounding of the exact remainder; DivisionImpossible - and nothing
   else - exactly when the integer quotient needs more than Precision digits *)
Theorem C02_rem est : est_in_range est -> forall c x y,
  ctx_ok c -> finite_nn x -> finite_nn y -> coeff y <> 0 -> Z.abs (exp x - exp y) <= MaxExponent ->
  let E := mkExact (neg x) (al_a x y mod al_b x y) 1 (al_exp x y) in
  exact_in_limits c E ->
  if ndigits (al_a x y / al_b x y) >? prec c
  then ctx_rem est c x y = Ok (finish c d_nan fDivisionImpossible)
  else exists d f, ctx_rem est c x y = Ok (finish c d f) /\ c02_post c E d f.
Proof. exact (c02_rem est). Qed.
Print Assumptions C02_rem.

(* Reduce: exactly the conditions of its one rounding; removing trailing zeros raises nothing and never turns a
   finite result into a special value or back *)
Theorem C02_reduce est : est_in_range est -> forall c x, ctx_ok c -> finite_nn x -> exact_in_limits c (exact_of_dec x) ->
  exists d' f n, ctx_reduce est c x = Ok (finish c d' f, n) /\
    exists d, c02_post c (exact_of_dec x) d f /\ (form_of d' = Finite <-> form_of d = Finite).
Proof. exact (c02_reduce est). Qed.
Print Assumptions C02_reduce.
