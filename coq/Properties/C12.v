(* C12 — Exp, Ln, Log10 and Pow are accurate to one unit in the last place.
   The theorems below are about the decision procedure applied to the implementation's results
   (Oracle/Transc.v): for every working precision, operation, context, operands and observed result,
   an alarm of the procedure is a proof that the real-number statement of the property is violated on
   that input, and its silence is a proof that it holds on that input.  real_value is the function of
   the Coq reals (exp, ln, ln x / ln 10, powerRZ for an integer exponent and Rpower = exp (y ln x)
   otherwise); one_ulp v d adj u is |v - d| <= 10^u, or v lies in a decade above d's and |v - d| <= 10^(u+1). *)
From Coq Require Import ZArith Reals List.
From Apd Require Import Model.Base Model.Decimal Oracle.Judge Oracle.Transc Proofs.TranscProofs.
Import ListNotations.

(* the interval evaluation encloses the real meaning of every expression, at every working precision *)
Theorem C12_interval_enclosure : forall bits e, Interval.contains (I.convert (ieval bits e)) (xeval e).
Proof. exact ieval_correct. Qed.
Print Assumptions C12_interval_enclosure.

Theorem C12_alarm_is_a_violation :
  forall bits t c x y o, general_case t c x y o ->
  In O_TR_ULP (oracle_c12 bits t c x y o) ->
  ~ one_ulp (real_value t x y) (D2R (o_dec o)) (adj_of (o_dec o)) (ulp_exp c (o_dec o)).
Proof. exact c12_ulp_alarm_is_violation. Qed.
Print Assumptions C12_alarm_is_a_violation.

Theorem C12_silence_is_within_one_unit :
  forall bits t c x y o, general_case t c x y o ->
  form_of (o_dec o) = Finite -> Overflow (o_cond o) = false ->
  oracle_c12 bits t c x y o = [] ->
  one_ulp (real_value t x y) (D2R (o_dec o)) (adj_of (o_dec o)) (ulp_exp c (o_dec o)).
Proof. exact c12_silent_means_within. Qed.
Print Assumptions C12_silence_is_within_one_unit.

Theorem C12_overflow_alarm_is_a_violation :
  forall bits t c x y o, general_case t c x y o ->
  In O_TR_OVERFLOW (oracle_c12 bits t c x y o) ->
  (Rabs (real_value t x y) < over_limit_R c)%R.
Proof. exact c12_overflow_alarm_is_violation. Qed.
Print Assumptions C12_overflow_alarm_is_a_violation.

Theorem C12_underflow_alarm_is_a_violation :
  forall bits t c x y o, general_case t c x y o ->
  In O_TR_UNDERFLOW (oracle_c12 bits t c x y o) ->
  (under_limit_R c < Rabs (real_value t x y))%R.
Proof. exact c12_underflow_alarm_is_violation. Qed.
Print Assumptions C12_underflow_alarm_is_a_violation.

Theorem C12_silent_infinity_is_a_real_overflow :
  forall bits t c x y o, general_case t c x y o -> form_of (o_dec o) = Infinite ->
  oracle_c12 bits t c x y o = [] -> (over_limit_R c < Rabs (real_value t x y))%R.
Proof. exact c12_silent_infinity_is_overflow. Qed.
Print Assumptions C12_silent_infinity_is_a_real_overflow.

Theorem C12_near_qualifier :
  forall bits t c x y o, general_case t c x y o ->
  In O_TR_NEAR (oracle_c12 bits t c x y o) ->
  (Rabs (real_value t x y - D2R (o_dec o)) <= 15 * powerRZ 10 (ulp_exp c (o_dec o) - 1))%R.
Proof. exact c12_near_qualifier_sound. Qed.
Print Assumptions C12_near_qualifier.

(* Pow: for a positive base the integer-exponent reading agrees with Rpower *)
Theorem C12_pow_integer_reading : forall (x : R) (n : Z), (0 < x)%R -> powerRZ x n = Rpower x (IZR n).
Proof. exact pow_int_is_rpower. Qed.
Print Assumptions C12_pow_integer_reading.

(* non-vacuity: the procedure decides concrete cases both ways *)
Local Open Scope Z_scope.
Definition ctx5 := mkCtx 5 20 (-20) c0 RHalfEven.
Definition one_dec := mkDec Finite false 0 1.
Definition obs_of (d : dec) (fl : cond) := mkObs d fl 0 ENone 0 None None true.
(* exp(1) = 2.71828...: 2.7183 is accepted, 2.7185 is rejected, at 84 bits *)
Example exp1_accepted : oracle_c12 84 TExp ctx5 one_dec one_dec (obs_of (mkDec Finite false (-4) 27183) (fInexact ||| fRounded)) = [].
Proof. vm_compute. reflexivity. Qed.
Example exp1_rejected : oracle_c12 84 TExp ctx5 one_dec one_dec (obs_of (mkDec Finite false (-4) 27185) (fInexact ||| fRounded)) = [O_TR_ULP].
Proof. vm_compute. reflexivity. Qed.
Example exp1_general : general_case TExp ctx5 one_dec one_dec (obs_of (mkDec Finite false (-4) 27183) (fInexact ||| fRounded)).
Proof. vm_compute. repeat split; reflexivity. Qed.
(* 2 ** 0.5 and ln 10 / log10 2 *)
Example pow_half_accepted : oracle_c12 84 TPow ctx5 (mkDec Finite false 0 2) (mkDec Finite false (-1) 5) (obs_of (mkDec Finite false (-4) 14142) (fInexact ||| fRounded)) = [].
Proof. vm_compute. reflexivity. Qed.
Example log10_2_rejected : oracle_c12 84 TLog10 ctx5 (mkDec Finite false 0 2) one_dec (obs_of (mkDec Finite false (-5) 30105) (fInexact ||| fRounded)) = [O_TR_ULP].
Proof. vm_compute. reflexivity. Qed.
(* a spurious overflow is an alarm: exp(3) reported as Infinity with Emax = 20 *)
Example overflow_rejected : oracle_c12 84 TExp ctx5 (mkDec Finite false 0 3) one_dec (obs_of (mkDec Infinite false 0 0) (fOverflow ||| fInexact ||| fRounded)) = [O_TR_OVERFLOW].
Proof. vm_compute. reflexivity. Qed.
