(* C19 - Reduce and NumDigits are exact.  Statements only; proofs are in Proofs/. *)
From Coq Require Import ZArith.
From Apd Require Import Generated.Consts Model.Base Model.NumDigits Model.Decimal
  Proofs.Digits Proofs.EstRange Proofs.ReduceProofs.
Open Scope Z_scope.

(* what "number of decimal digits of |b|" means *)
Theorem C19_digit_count_meaning b : b <> 0 -> 10 ^ (ndigits b - 1) <= Z.abs b < 10 ^ ndigits b.
Proof. exact (ndigits_bounds b). Qed.
Print Assumptions C19_digit_count_meaning.

(* NumDigits through the lookup table: every integer of at most 128 bits, either sign *)
Theorem C19_numdigits_table b : bitlen b <= digitsTableSize -> num_digits b = Ok (ndigits b).
Proof. exact (num_digits_table go_est b). Qed.
Print Assumptions C19_numdigits_table.

(* NumDigits above the table: exact for EVERY float estimate in the stated range, any size, either sign *)
Theorem C19_numdigits_big_any_estimate est b :
  digitsTableSize < bitlen b -> est_ok (est (bitlen b)) (bitlen b) = true ->
  num_digits_with est b = Ok (ndigits b).
Proof. exact (num_digits_big est b). Qed.
Print Assumptions C19_numdigits_big_any_estimate.

(* Go's own float64 estimate is in that range for every bit length up to 8320 (2504 digits) ... *)
Theorem C19_numdigits_upto_8320_bits b : bitlen b <= 8320 -> num_digits b = Ok (ndigits b).
Proof. exact (num_digits_correct_bounded b). Qed.
Print Assumptions C19_numdigits_upto_8320_bits.

(* ... and beyond that under the closed arithmetic premise EstOK (checked per case by the harness) *)
Theorem C19_numdigits_partial : EstOK -> forall b, num_digits b = Ok (ndigits b).
Proof. exact num_digits_correct. Qed.
Print Assumptions C19_numdigits_partial.

(* Decimal.Reduce: same value, no trailing zero, exact count, function of the operand only *)
(* [est]: the float estimate used by NumDigits above the table; Reduce does not depend on it at all *)
Theorem C19_reduce_nonzero est x : form_of x = Finite -> 0 < coeff x ->
  exists d n, dreduce est x = Ok (d, n) /\ 0 <= n /\
    form_of d = Finite /\ neg d = neg x /\ exp d = exp x + n /\ coeff x = coeff d * 10 ^ n /\
    0 < coeff d /\ coeff d mod 10 <> 0.
Proof. exact (dreduce_nonzero est x). Qed.
Print Assumptions C19_reduce_nonzero.

Theorem C19_reduce_zero est x : form_of x = Finite -> coeff x = 0 -> dreduce est x = Ok (mkDec Finite false 0 0, 0).
Proof. exact (dreduce_zero est x). Qed.
Print Assumptions C19_reduce_zero.

Theorem C19_reduce_special est x : form_of x <> Finite -> dreduce est x = Ok (x, 0).
Proof. exact (dreduce_special est x). Qed.
Print Assumptions C19_reduce_special.

(* non-vacuity: a concrete value meeting the hypotheses *)
Example C19_example : dreduce go_est (mkDec Finite true (-2) 120000) = Ok (mkDec Finite true 2 12, 4).
Proof. vm_compute. reflexivity. Qed.

(* beyond the sizes at which the model is evaluated, NumDigits is checked on 10^k - 1, 10^k, 10^k + 1 (k up
   to 30000) against this closed form of the digit count *)
From Apd Require Import Spec.SpecZ Proofs.ReduceProofs.
Theorem C19_digits_of_powers_of_ten : forall k delta, 1 <= k -> -1 <= delta <= 1 ->
  ndigits (10 ^ k + delta) = expected_digits_pow10 k delta.
Proof. exact expected_digits_pow10_sound. Qed.
Print Assumptions C19_digits_of_powers_of_ten.

(* Context.Reduce on every finite operand inside the limits: (d, f) is the ONE rounding of x to the context
   (op_post: correctly rounded value, flags, fit - C01/C02/C07); the returned d' is d with the trailing zeros
   of the ROUNDED coefficient stripped ("9.95 -> 10 at two digits" comes back as 1E+1), the sign kept, zero as
   0E+0 with that sign, an overflow to Infinity untouched; n is exactly the number of zeros removed. *)
From Apd Require Import Model.Context Proofs.Core Proofs.OpsProofs Proofs.CtxReduce.
Theorem C19_context_reduce est : est_in_range est -> forall c x, ctx_ok c -> finite_nn x -> exact_in_limits c (exact_of_dec x) ->
  exists d f d' n, ctx_reduce est c x = Ok (finish c d' f, n) /\ op_post c (exact_of_dec x) d f /\
    (form_of d = Infinite -> d' = d /\ n = 0) /\
    (form_of d = Finite -> coeff d = 0 -> d' = mkDec Finite (neg d) 0 0 /\ n = 0) /\
    (form_of d = Finite -> 0 < coeff d ->
       form_of d' = Finite /\ neg d' = neg d /\ 0 <= n /\ exp d' = exp d + n /\ coeff d = coeff d' * 10 ^ n /\
       0 < coeff d' /\ coeff d' mod 10 <> 0 /\ fits c d' = true).
Proof. exact (ctx_reduce_correct est). Qed.
Print Assumptions C19_context_reduce.

Example C19_context_reduce_carry :   (* 9.95 at Precision 2, half_up: rounds to 10, reduces to 1E+1, one zero removed *)
  ctx_reduce go_est (mkCtx 2 9 (-9) c0 RHalfUp) (mkDec Finite false (-2) 995)
  = Ok (finish (mkCtx 2 9 (-9) c0 RHalfUp) (mkDec Finite false 1 1) (fInexact ||| fRounded), 1).
Proof. vm_compute. reflexivity. Qed.

(* Context.Reduce at Precision 0 (no rounding at all): the operand with its trailing zeros removed, no condition *)
From Apd Require Import Proofs.P0Proofs Proofs.ReduceP0.
Theorem C19_context_reduce_precision_zero est : est_in_range est -> forall c x,
  prec c = 0 -> finite_nn x -> exact_in_range c (exact_of_dec x) ->
  exists d' n, ctx_reduce est c x = Ok (finish c d' c0, n) /\
    (coeff x = 0 -> d' = mkDec Finite (neg x) 0 0 /\ n = 0) /\
    (0 < coeff x ->
       form_of d' = Finite /\ neg d' = neg x /\ 0 <= n /\ exp d' = exp x + n /\ coeff x = coeff d' * 10 ^ n /\
       0 < coeff d' /\ coeff d' mod 10 <> 0).
Proof. exact (ctx_reduce_p0 est). Qed.
Print Assumptions C19_context_reduce_precision_zero.
