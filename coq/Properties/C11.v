(* C11 - Sqrt is correctly rounded; Cbrt is within one unit and exact on perfect cubes.
   Sqrt and Cbrt are modelled in full (Model/Roots.v) and the model is compared with the implementation result
   for result; the property itself is decided per input by exact integer arithmetic on the implementation's result
   (Oracle/JudgeRoots.v): no floating point, no tolerance.  Machine-checked here:
   - the integer core of the Sqrt oracle computes exactly the specification "sqrt(Y) rounded half-even to a
     multiple of U = 10^k":  ((2q'-1) U)^2 <= 4Y <= ((2q'+1) U)^2, equality (a tie) only with q' even,
     exact <-> (q' U)^2 = Y.  So a disagreement between Sqrt and the oracle is a proven violation on that input.
   - on the model: the Inexact flag sqrtCorrect returns is false exactly when the square of the returned value IS
     the operand (exact multiplication and comparison, inside the exponent limits).
   The Cbrt oracle is the defining inequality itself ((c-1)^3 <= x <= (c+1)^3 on exactly scaled integers, and
   k^3 = x for perfect cubes found by an integer cube root whose result is verified by cubing).
   - on the model: a fixed point of sqrtCorrect's correction step is the half-even rounding of the square root
     (exact arithmetic of the step proven from the Precision-0 theorems of Add and Mul).
   NOT proven: that the Newton iteration always lands within reach of the (at most four) correction steps. *)
From Coq Require Import ZArith Bool.
From Apd Require Import Generated.Consts Model.Base Model.NumDigits Model.Decimal Model.Context Model.Roots Oracle.JudgeRoots
  Proofs.Core Proofs.SetExponent Proofs.RootsProofs Proofs.SqrtExact Proofs.SqrtFix Spec.SpecZ Spec.Order Proofs.P0Proofs.
Open Scope Z_scope.

Theorem C11_sqrt_oracle_is_half_even_rounding k Y : 0 < Y -> 1 <= k -> 10 ^ k <= Z.sqrt Y ->
  let U := 10 ^ k in
  let '(q', exact) := round_sqrt_int k Y in
  1 <= q' /\
  ((2 * q' - 1) * U) * ((2 * q' - 1) * U) <= 4 * Y <= ((2 * q' + 1) * U) * ((2 * q' + 1) * U) /\
  (4 * Y = ((2 * q' - 1) * U) * ((2 * q' - 1) * U) -> Z.even q' = true) /\
  (4 * Y = ((2 * q' + 1) * U) * ((2 * q' + 1) * U) -> Z.even q' = true) /\
  (exact = true <-> (q' * U) * (q' * U) = Y).
Proof. exact (round_sqrt_int_spec k Y). Qed.
Print Assumptions C11_sqrt_oracle_is_half_even_rounding.

(* sqrtCorrect on the model: Inexact = false iff (returned value)^2 = operand.  same_number c1 e1 c2 e2: the two
   positive values c1*10^e1 and c2*10^e2 are equal *)
Theorem C11_sqrt_inexact_iff_square_differs est : est_in_range est -> forall nc d x res0 d2 f,
  sqrt_correct est nc d x res0 = Ok (d2, f) ->
  (exists d1, sqrt_fix est 4 (prec nc) d x = Ok (EdOk _ d1)) ->
  form_of d2 = Finite -> 0 < coeff d2 -> in_lim (exp d2) -> in_lim (exp d2 + exp d2) ->
  in_lim (exp d2 + exp d2 + ndigits (coeff d2 * coeff d2) - 1) ->
  form_of x = Finite -> neg x = false -> 0 < coeff x ->
  (Inexact f = false <-> same_number (coeff d2 * coeff d2) (exp d2 + exp d2) (coeff x) (exp x)).
Proof. exact (sqrt_correct_inexact_iff est). Qed.
Print Assumptions C11_sqrt_inexact_iff_square_differs.

(* sqrtCorrect's loop on the model: a value that one more correction step leaves where it is IS the half-even rounding of
   the square root to p digits - (d - u_lo/2)^2 <= x <= (d + u/2)^2 on the exact decimals (dplus: exact sum/difference,
   dsq: exact square, cmp_spec: exact comparison), a tie on the right only with an even last digit, on the left only with
   an even last digit or d a power of ten (where the unit below is u/10).  sum_ok / sq_ok: the six exact intermediate
   values stay inside the package's exponent limits. *)
Theorem C11_sqrt_correction_fixed_point_is_half_even est : est_in_range est -> forall p d x,
  let nd := ndigits (coeff d) in
  let ue := exp d - (p - nd) in
  let ulp := mkDec Finite false ue 1 in
  let half := mkDec Finite false (ue - 1) 5 in
  let pow10 := coeff d =? 10 ^ (nd - 1) in
  let ulp_lo := if pow10 then mkDec Finite false (ue - 1) 1 else ulp in
  let half_lo := if pow10 then mkDec Finite false (ue - 2) 5 else half in
  let hi := dplus d half false in
  let lo := dplus d half_lo true in
  form_of d = Finite -> neg d = false -> 0 < coeff d ->
  form_of x = Finite -> 0 <= coeff x ->
  sum_ok d half false -> sum_ok d half_lo true -> sum_ok d ulp false -> sum_ok d ulp_lo true -> sq_ok hi -> sq_ok lo ->
  sqrt_fix est 1 p d x = Ok (EdOk _ d) ->
  0 <= cmp_spec (dsq hi) x /\ (cmp_spec (dsq hi) x = 0 -> last_digit_odd d ue = false) /\
  cmp_spec (dsq lo) x <= 0 /\ (cmp_spec (dsq lo) x = 0 -> last_digit_odd d ue = false \/ pow10 = true).
Proof. exact (sqrt_fix_fixed_point est). Qed.
Print Assumptions C11_sqrt_correction_fixed_point_is_half_even.

(* non-vacuity of its hypotheses: d = 1.4142, x = 2, p = 5 is such a fixed point inside the limits; 1.4143 is not *)
Example C11_fixed_point_example :
  let d := mkDec Finite false (-4) 14142 in
  let x := mkDec Finite false 0 2 in
  let half := mkDec Finite false (-5) 5 in
  let ulp := mkDec Finite false (-4) 1 in
  sqrt_fix est_exact 1 5 d x = Ok (EdOk _ d) /\
  sqrt_fix est_exact 1 5 (mkDec Finite false (-4) 14143) x <> Ok (EdOk _ (mkDec Finite false (-4) 14143)) /\
  sum_ok d half false /\ sum_ok d half true /\ sum_ok d ulp false /\ sum_ok d ulp true /\
  sq_ok (dplus d half false) /\ sq_ok (dplus d half true).
Proof.
  cbv zeta. split; [vm_compute; reflexivity|]. split; [vm_compute; discriminate|].
  unfold sum_ok, sq_ok, exact_in_range, SetExponent.in_lim.
  repeat split; try reflexivity; vm_compute; intros H; discriminate H.
Qed.

(* non-vacuity: the model's Sqrt of 6.25 at Precision 5 is 2.5000 with no Inexact; of 2 it is 1.4142 with Inexact *)
Example C11_model_examples :
  (match ctx_sqrt go_est (mkCtx 5 99 (-99) c0 RHalfEven) (mkDec Finite false (-2) 625) with Ok r => (rdec r, Inexact (rcond r)) | _ => (None, true) end,
   match ctx_sqrt go_est (mkCtx 5 99 (-99) c0 RHalfEven) (mkDec Finite false 0 2) with Ok r => (rdec r, Inexact (rcond r)) | _ => (None, false) end)
  = ((Some (mkDec Finite false (-4) 25000), false), (Some (mkDec Finite false (-4) 14142), true)).
Proof. vm_compute. reflexivity. Qed.

(* the hard cases that used to be misrounded: sqrt(0.9999999) at 7 digits, sqrt(9025) at 1 digit (a tie) *)
Example C11_examples :
  (sqrt_expect 7 9999999 (-7), sqrt_expect 1 9025 0, sqrt_expect 9 99999999 (-6), sqrt_expect 3 4 0)
  = ((9999999, -7, false), (10, 1, false), (999999995, -8, false), (200, -2, true)).
Proof. vm_compute. reflexivity. Qed.
