(* C11 - Sqrt is correctly rounded; Cbrt is within one unit and exact on perfect cubes.
   The Newton iterations of Sqrt and Cbrt are NOT modelled in Coq; the property is decided per input by
   exact integer arithmetic on the implementation's result (Oracle/JudgeRoots.v): no floating point, no
   tolerance.  What IS machine-checked here: the integer core of the Sqrt oracle computes exactly the
   specification "sqrt(Y) rounded half-even to a multiple of U = 10^k":
       ((2q'-1) U)^2 <= 4Y <= ((2q'+1) U)^2,   equality (a tie) only with q' even,   exact <-> (q' U)^2 = Y.
   So a disagreement between Sqrt and the oracle is a proven violation of correct rounding on that input.
   The Cbrt oracle is the defining inequality itself ((c-1)^3 <= x <= (c+1)^3 on exactly scaled integers,
   and k^3 = x for perfect cubes found by an integer cube root whose result is verified by cubing). *)
From Coq Require Import ZArith Bool.
From Apd Require Import Generated.Consts Model.Base Model.NumDigits Oracle.JudgeRoots Proofs.RootsProofs.
Open Scope Z_scope.

Theorem C11_sqrt_oracle_is_half_even_rounding k Y : 0 < Y -> 1 <= k -> 10 ^ k <= Z.sqrt Y ->
  let U := 10 ^ k in
  let '(q', exact) := round_sqrt_int k Y in
  1 <= q' /\
  ((2 * q' - 1) * U) * ((2 * q' - 1) * U) <= 4 * Y <= ((2 * q' + 1) * U) * ((2 * q' + 1) * U) /\
  (4 * Y = ((2 * q' - 1) * U) * ((2 * q' - 1) * U) -> Z.even q' = true) /\
  (4 * Y = ((2 * q' + 1) * U) * ((2 * q' + 1) * U) -> Z.even q' = true) /\
  (exact = true <-> (q' * U) * (q' * U) = Y).
Proof. exact (round_sqrt_int_spec k Y). Qed.
Print Assumptions C11_sqrt_oracle_is_half_even_rounding.

(* the hard cases that used to be misrounded: sqrt(0.9999999) at 7 digits, sqrt(9025) at 1 digit (a tie) *)
Example C11_examples :
  (sqrt_expect 7 9999999 (-7), sqrt_expect 1 9025 0, sqrt_expect 9 99999999 (-6), sqrt_expect 3 4 0)
  = ((9999999, -7, false), (10, 1, false), (999999995, -8, false), (200, -2, true)).
Proof. vm_compute. reflexivity. Qed.
