(* C14 - String is the GDA scientific string; parsing accepts exactly its grammar.  Statements only;
   proofs in Proofs/TextProofs.v.
   PROVEN for every decimal: the model of String()/Text('G')/MarshalText/Value is the specification's
   to-scientific-string (Spec/Grammar.v: sci_string - plain notation iff exponent <= 0 and adjusted
   exponent >= -6, otherwise one digit, fraction and a signed exponent) including the documented exception
   (a zero with exponent in [-2000,-1] is written out in plain notation); the coefficient digits printed
   are digits only, never empty, and denote the coefficient.
   NOT PROVEN (decided on the implementation instead): that the model of the parser accepts exactly the
   grammar.  The independent left-to-right recogniser gparse/gdec of Spec/Grammar.v (grammar + package
   limits on exponent and adjusted exponent) is applied to every generated string (grammar derivations,
   single and double byte mutations incl. non-ASCII letters that lower-case to ASCII, random bytes) and
   must agree with the implementation on acceptance AND value; UnmarshalText, Scan(string), Scan([]byte)
   and NewFromString must agree with SetString; a rejected string must leave no partial value (nil).
   Format: the model of Format is compared byte for byte, and against fmt's padding rules (fmt_pad). *)
From Coq Require Import ZArith Bool List.
From Apd Require Import Generated.Consts Model.Base Model.NumDigits Model.Decimal Model.Context Model.Text Spec.Grammar Proofs.TextProofs.
Open Scope Z_scope.

Theorem C14_string_is_to_scientific_string d : 0 <= coeff d -> format_G d = sci_string d.
Proof. exact (format_G_is_sci_string d). Qed.
Print Assumptions C14_string_is_to_scientific_string.

Theorem C14_coefficient_digits n : 0 <= n -> digits_val (digits_of n) = n /\ is_digits (digits_of n) = true.
Proof. exact (digits_roundtrip n). Qed.
Print Assumptions C14_coefficient_digits.

(* readability / non-vacuity: the switch-over points *)
Example C14_examples :
  (sci_string (mkDec Finite false (-6) 1), sci_string (mkDec Finite false (-7) 1), sci_string (mkDec Finite true 2 123),
   sci_string (mkDec Finite false (-3) 0), sci_string (mkDec Finite false (-2001) 0), sci_string (mkDec Finite false (-2) 12345))
  = ([48;46;48;48;48;48;48;49], [49;69;45;55], [45;49;46;50;51;69;43;52], [48;46;48;48;48], [48;69;45;50;48;48;49], [49;50;51;46;52;53]).
Proof. vm_compute. reflexivity. Qed.

(* the grammar recogniser on a few strings: ".5", "1.", "+1e+5", ".", "1e", ".-5", "nansnan", "NaN123" *)
Example C14_grammar_examples :
  (gdec [46;53], gdec [49;46], gdec [43;49;101;43;53], gdec [46], gdec [49;101], gdec [46;45;53],
   gdec [110;97;110;115;110;97;110], gdec [78;97;78;49;50;51])
  = (Some (mkDec Finite false (-1) 5), Some (mkDec Finite false 0 1), Some (mkDec Finite false 5 1), None, None, None,
     None, Some (mkDec NaN false 0 0)).
Proof. vm_compute. reflexivity. Qed.
