(* C14 - String is the GDA scientific string; parsing accepts exactly its grammar.  Statements only;
   proofs in Proofs/TextProofs.v, Proofs/GrammarEquiv.v, Proofs/Accept.v.
   PROVEN for every decimal: the model of String()/Text('G')/MarshalText/Value is the specification's
   to-scientific-string (Spec/Grammar.v: sci_string - plain notation iff exponent <= 0 and adjusted
   exponent >= -6, otherwise one digit, fraction and a signed exponent) including the documented exception
   (a zero with exponent in [-2000,-1] is written out in plain notation).
   PROVEN for EVERY byte string (any length, any bytes - a language-membership statement, by induction):
   the model of setString (prefix / index / slice surgery on the lower-cased copy) and the independent
   left-to-right recogniser gparse of Spec/Grammar.v (the specification's numeric-string grammar) agree on
   acceptance and on the value; the only difference is that the written exponent must fit an int32
   (strconv.ParseInt(.., 10, 32)), which cannot matter for a string shorter than 2^30 bytes whose exponent is
   inside the package limits.  Hence NewFromString / SetString / UnmarshalText / Scan (BaseContext) return
   exactly gdec s - the grammar's value when exponent and adjusted exponent are inside the package limits,
   with no condition and no error, and an error with NO value for everything else.
   Checked on the implementation (not proven): that the Go code IS this model - correspondence on every
   generated string (grammar derivations, single and double byte mutations incl. non-ASCII letters that
   lower-case to ASCII, random bytes); UnmarshalText, Scan(string), Scan([]byte) and NewFromString agree with
   SetString; Format: the model of Format is compared byte for byte and against fmt's padding rules (fmt_pad). *)
From Coq Require Import ZArith Bool List.
From Apd Require Import Generated.Consts Model.Base Model.NumDigits Model.Decimal Model.Context Model.Text Spec.Grammar Proofs.Core Proofs.SetExponent Proofs.TextProofs Proofs.GrammarEquiv Proofs.Accept Proofs.FormatFlags.
Open Scope Z_scope.

Theorem C14_string_is_to_scientific_string d : 0 <= coeff d -> format_G d = sci_string d.
Proof. exact (format_G_is_sci_string d). Qed.
Print Assumptions C14_string_is_to_scientific_string.

Theorem C14_coefficient_digits n : 0 <= n -> digits_val (digits_of n) = n /\ is_digits (digits_of n) = true.
Proof. exact (digits_roundtrip n). Qed.
Print Assumptions C14_coefficient_digits.

(* the parser IS the grammar, on every byte string: gparse_with gexp32 is the recogniser of Spec/Grammar.v with
   the exponent-part additionally required to fit an int32; graw turns its value into a Decimal *)
Theorem C14_parser_is_grammar s : set_string_raw s = graw (gparse_with gexp32 s).
Proof. exact (parse_equiv s). Qed.
Print Assumptions C14_parser_is_grammar.

(* nothing outside the grammar is accepted, and what is accepted carries the grammar's value *)
Theorem C14_parser_accepts_only_grammar s d : set_string_raw s = Some d -> graw (gparse s) = Some d.
Proof. exact (parser_sound s d). Qed.
Print Assumptions C14_parser_accepts_only_grammar.

Theorem C14_parser_rejects_non_grammar s : gparse s = None -> set_string_raw s = None.
Proof. exact (parser_rejects s). Qed.
Print Assumptions C14_parser_rejects_non_grammar.

(* every string of the grammar is accepted: special values always, numbers whenever |exponent| < 2^30 and the
   string is shorter than 2^30 bytes (so that the written exponent fits the int32 of strconv.ParseInt) *)
Theorem C14_parser_accepts_grammar s g : gparse s = Some g ->
  Z.of_nat (length s) < 2 ^ 30 -> (forall ng c e, g = GNum ng c e -> - 2 ^ 30 < e < 2 ^ 30) ->
  set_string_raw s = graw (Some g).
Proof. exact (parser_complete s g). Qed.
Print Assumptions C14_parser_accepts_grammar.

(* the entry points: success exactly on grammar strings inside the package limits (gdec), with the grammar's
   value, no condition, no error; an error and NO value otherwise *)
Theorem C14_new_from_string_is_grammar_within_limits est : est_in_range est -> forall s,
  Z.of_nat (length s) < 2 ^ 30 ->
  new_from_string est s = Ok (option_map (fun d => (d, c0, ENone)) (gdec s)).
Proof. exact (new_from_string_is_grammar est). Qed.
Print Assumptions C14_new_from_string_is_grammar_within_limits.

(* readability / non-vacuity: the switch-over points *)
Example C14_examples :
  (sci_string (mkDec Finite false (-6) 1), sci_string (mkDec Finite false (-7) 1), sci_string (mkDec Finite true 2 123),
   sci_string (mkDec Finite false (-3) 0), sci_string (mkDec Finite false (-2001) 0), sci_string (mkDec Finite false (-2) 12345))
  = ([48;46;48;48;48;48;48;49], [49;69;45;55], [45;49;46;50;51;69;43;52], [48;46;48;48;48], [48;69;45;50;48;48;49], [49;50;51;46;52;53]).
Proof. vm_compute. reflexivity. Qed.

(* the grammar recogniser on a few strings: ".5", "1.", "+1e+5", ".", "1e", ".-5", "nansnan", "NaN123" *)
Example C14_grammar_examples :
  (gdec [46;53], gdec [49;46], gdec [43;49;101;43;53], gdec [46], gdec [49;101], gdec [46;45;53],
   gdec [110;97;110;115;110;97;110], gdec [78;97;78;49;50;51])
  = (Some (mkDec Finite false (-1) 5), Some (mkDec Finite false 0 1), Some (mkDec Finite false 5 1), None, None, None,
     None, Some (mkDec NaN false 0 0)).
Proof. vm_compute. reflexivity. Qed.

(* Format's flags (+, space, -, 0) and width: the model is fmt's padding rule (fmt_pad, written independently) applied to
   the text of the same verb, for every decimal, flag combination and width *)
Theorem C14_format_flags_are_fmt_padding fl fmtc d : 0 <= coeff d ->
  format_verb fl fmtc d =
  fmt_pad (fl_plus fl) (fl_space fl) (fl_minus fl) (fl_zero fl) (fl_width fl) (is_finite d) (format_text fmtc d).
Proof. exact (format_verb_is_fmt_pad fl fmtc d). Qed.
Print Assumptions C14_format_flags_are_fmt_padding.
(* "%+08.v"-style example: -1.5 with flags 0 and width 8, +Infinity with flag + and width 10 left-justified *)
Example C14_format_flags_examples :
  (format_verb (mkFlags false false false true (Some 8)) ch_G (mkDec Finite true (-1) 15),
   format_verb (mkFlags true false true false (Some 10)) ch_G (mkDec Infinite false 0 0))
  = ([45;48;48;48;48;49;46;53], [43;73;110;102;105;110;105;116;121;32]).
Proof. vm_compute. reflexivity. Qed.
