(* C17 - integer and float conversions and Modf are exact.  Statements only; proofs in Proofs/ConvProofs.v.
   [ival d]: the integer value of a finite decimal if it is an integer (any exponent, any trailing zeros).
   Float64/SetFloat64 go through strconv (ParseFloat / AppendFloat), which is not modelled: they are
   decided on the implementation against the nearest float64 computed with math/big.Rat, by the
   bit-exact round trip over float64 bit patterns, and by a shortest-coefficient test. *)
From Coq Require Import ZArith Bool.
From Apd Require Import Generated.Consts Model.Base Model.NumDigits Model.Decimal Model.BigInt Model.Conv
  Proofs.Core Proofs.ConvProofs.
Open Scope Z_scope.

(* Int64 returns v exactly when the decimal is an integer within [MinInt64, MaxInt64] and an error (None)
   otherwise; the int64 wrap of the x10 loop and of the uint64 -> int64 cast are in the model and proven harmless *)
Theorem C17_int64 est : est_in_range est -> forall d, form_of d = Finite -> 0 <= coeff d ->
  dint64 est d = Ok (match ival d with
                     | Some v => if (- 2 ^ 63 <=? v) && (v <? 2 ^ 63) then Some v else None
                     | None => None
                     end).
Proof. exact (dint64_spec est). Qed.
Print Assumptions C17_int64.

(* SetInt64 / New / SetFinite and NewWithBigInt represent their arguments exactly *)
Theorem C17_set_finite_exact x e : - 2 ^ 63 <= x < 2 ^ 63 -> set_finite x e = mkDec Finite (x <? 0) e (Z.abs x).
Proof. exact (set_finite_exact x e). Qed.
Print Assumptions C17_set_finite_exact.
Theorem C17_new_with_big_int_exact v e : new_with_big_int v e = mkDec Finite (v <? 0) e (Z.abs v).
Proof. exact (new_with_big_int_exact v e). Qed.
Print Assumptions C17_new_with_big_int_exact.

(* Modf: integ + frac = d exactly (coeff d = coeff integ * 10^-exp + coeff frac), integ an integer with
   exponent 0, |frac| < 1, both carrying d's sign; for a positive exponent integ = d and frac = 0 *)
Theorem C17_modf_identity est : est_in_range est -> forall d, form_of d = Finite -> 0 <= coeff d -> exp d <= 0 ->
  exists i f, modf est d = Ok (i, f) /\
    form_of i = Finite /\ form_of f = Finite /\ neg i = neg d /\ neg f = neg d /\ exp i = 0 /\ exp f = exp d /\
    coeff d = coeff i * 10 ^ (- exp d) + coeff f /\ 0 <= coeff f < 10 ^ (- exp d) /\ 0 <= coeff i.
Proof. exact (modf_identity est). Qed.
Print Assumptions C17_modf_identity.
Theorem C17_modf_positive_exponent est d : 0 < exp d -> modf est d = Ok (d, mkDec Finite (neg d) 0 0).
Proof. exact (modf_positive_exponent est d). Qed.
Print Assumptions C17_modf_positive_exponent.

Example C17_example :
  (dint64 go_est (mkDec Finite true (-2) 922337203685477580800), dint64 go_est (mkDec Finite false 1 922337203685477581),
   dint64 go_est (mkDec Finite false (-1) 15), dint64 go_est (mkDec Finite false 19 2))
  = (Ok (Some (-9223372036854775808)), Ok None, Ok None, Ok None).
Proof. vm_compute. reflexivity. Qed.
