(* C18 - a Context and its operands can be shared by concurrent goroutines.  Statements only; proofs in
   Imp/Interleave.v and Imp/Concurrent.v.
   Generic theorem: threads are finite trees of atomic reads and writes of memory cells; each thread has
   a read footprint R and a write footprint W covering every branch; if no thread writes a cell another
   thread reads or writes, then under EVERY schedule (any interleaving of the atomic actions, no bound on
   its length) each thread, when it has returned, returned exactly what it returns when run alone from
   the initial memory, and its write footprint holds exactly what its solo run leaves there.
   Instances: Neg and Abs into own destinations sharing one operand (footprints: Imp/AliasProofs.v); and two
   Context calls - Add and Sub - sharing ONE Context and the SAME operand object for both of their arguments
   (footprints over every branch of c.add incl. NaN handling and rounding: Imp/CtxProofs.v): under every
   schedule each call returns the Condition of its solo run and leaves its solo result in its destination.
   PARTIAL with respect to the Go memory model: the theorem is about the model's memory actions.  The real
   footprint of the implementation (BigInt.inner's unsafe pointer into the inline array, math/big's
   temporaries, package tables) is observed by the Go race detector: the harness binary is rebuilt with
   -race on every run and drives 2-8 goroutines over a shared Context and shared inline- and heap-backed
   operands through all Context methods and the read-only Decimal methods, comparing every result with a
   sequential baseline (GORACE=halt_on_error=1). *)
From Coq Require Import ZArith Bool List.
From Apd Require Import Generated.Consts Model.Base Model.NumDigits Imp.Mem Imp.Ops Imp.AliasProofs Imp.Interleave Imp.Concurrent Model.Decimal Model.Context Imp.CtxOps Imp.CtxProofs Imp.CtxOps2 Imp.ConcurrentCtx.
Import ListNotations.
Open Scope Z_scope.

Theorem C18_every_interleaving_equals_solo_runs (A : Type) (ps : threads A) (fs : list footprint) (m0 : mem) (sched : list nat) :
  length fs = length ps -> noninterfering fs ->
  (forall i p f, nth_error ps i = Some p -> nth_error fs i = Some f -> fits p f) ->
  let '(ts, m) := exec ps m0 sched in
  forall i p f a, nth_error ps i = Some p -> nth_error fs i = Some f -> nth_error ts i = Some (Ret a) ->
    a = fst (run p m0) /\ (forall q, fp_W f q -> m q = snd (run p m0) q).
Proof. exact (interleaving_is_solo ps fs m0 sched). Qed.
Print Assumptions C18_every_interleaving_equals_solo_runs.

Theorem C18_shared_operand_two_calls m0 sched :
  let '(ts, m) := exec two_calls m0 sched in
  nth_error ts 0 = Some (Ret tt) -> nth_error ts 1 = Some (Ret tt) ->
  (forall f, m (OA, f) = snd (run (neg_imp OA OC) m0) (OA, f)) /\
  (forall f, m (OB, f) = snd (run (abs_imp OB OC) m0) (OB, f)).
Proof. exact (shared_operand_any_schedule m0 sched). Qed.
Print Assumptions C18_shared_operand_two_calls.

(* read-only use of shared operands and write-only-own-destination, per transliterated method *)
Theorem C18_neg_footprint d x : rd_within (only_objs [d; x]) (neg_imp d x) /\ wr_within (only_obj d) (neg_imp d x).
Proof. exact (conj (neg_imp_reads d x) (neg_imp_frame d x)). Qed.
Print Assumptions C18_neg_footprint.

(* two goroutines, one shared Context, one shared operand: OA := OC + OC and OB := OC - OC *)
Theorem C18_shared_context_two_adds est c m0 sched :
  let '(ts, m) := exec (two_adds est c) m0 sched in
  forall o1 o2, nth_error ts 0 = Some (Ret o1) -> nth_error ts 1 = Some (Ret o2) ->
  o1 = fst (run (add_imp est c false OA OC OC) m0) /\ o2 = fst (run (add_imp est c true OB OC OC) m0) /\
  (forall f, m (OA, f) = snd (run (add_imp est c false OA OC OC) m0) (OA, f)) /\
  (forall f, m (OB, f) = snd (run (add_imp est c true OB OC OC) m0) (OB, f)).
Proof. exact (shared_context_and_operand_any_schedule est c m0 sched). Qed.
Print Assumptions C18_shared_context_two_adds.

(* any two methods with the footprints "reads destination and shared operand, writes destination" on one Context *)
Theorem C18_shared_operand_any_two_methods (p1 p2 : prog outcome) m0 sched :
  rd_within (only_objs [OA; OC; OC]) p1 -> wr_within (only_obj OA) p1 ->
  rd_within (only_objs [OB; OC; OC]) p2 -> wr_within (only_obj OB) p2 ->
  let '(ts, m) := exec [p1; p2] m0 sched in
  forall o1 o2, nth_error ts 0 = Some (Ret o1) -> nth_error ts 1 = Some (Ret o2) ->
  o1 = fst (run p1 m0) /\ o2 = fst (run p2 m0) /\
  (forall f, m (OA, f) = snd (run p1 m0) (OA, f)) /\ (forall f, m (OB, f) = snd (run p2 m0) (OB, f)).
Proof. exact (shared_operand_any_two_methods p1 p2 m0 sched). Qed.
Print Assumptions C18_shared_operand_any_two_methods.
(* instance: OA := OC / OC and OB := Quantize(OC, e) *)
Theorem C18_shared_context_quo_and_quantize est c e m0 sched :
  let p1 := quo_imp est c OA OC OC in
  let p2 := quantize_imp est c e OB OC in
  let '(ts, m) := exec [p1; p2] m0 sched in
  forall o1 o2, nth_error ts 0 = Some (Ret o1) -> nth_error ts 1 = Some (Ret o2) ->
  o1 = fst (run p1 m0) /\ o2 = fst (run p2 m0) /\
  (forall f, m (OA, f) = snd (run p1 m0) (OA, f)) /\ (forall f, m (OB, f) = snd (run p2 m0) (OB, f)).
Proof. exact (shared_context_quo_and_quantize est c e m0 sched). Qed.
Print Assumptions C18_shared_context_quo_and_quantize.

Theorem C18_context_add_footprint est c sub d x y :
  rd_within (only_objs [d; x; y]) (add_imp est c sub d x y) /\ wr_within (only_obj d) (add_imp est c sub d x y).
Proof. exact (conj (add_imp_reads est c sub d x y) (add_imp_ww est c sub d x y)). Qed.
Print Assumptions C18_context_add_footprint.
