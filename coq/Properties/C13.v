(* C13 - text and binary encodings round-trip every Decimal exactly.  Statements only; proofs in
   Proofs/TextProofs.v.
   PROVEN: the coefficient digit string printed by every text format denotes the coefficient again
   (digits only, never empty); every non-finite value (NaN, sNaN, Infinity of either sign, whatever
   their coefficient/exponent fields) round-trips through String(); String() is to-scientific-string.
   NOT PROVEN for finite values (decided on the implementation): parse(format(d)) = d field-wise for
   String/Text('G','g','E','e')/MarshalText/Value/%v/%s/%G/%E/%e, numeric value and sign for Text('f'),
   Compose(Decompose(d)) = d, and SetFloat64/Float64 bit-exact round trips - every generated Decimal
   (switch-over points -6/-7, zeros at -1/-2000/-2001, exponents at the package limits, pad lengths at
   multiples of 32, coefficients of any length) is formatted by the implementation, re-parsed by the
   implementation, and compared; the model of formatter and parser is compared byte for byte / field
   for field on the same cases. *)
From Coq Require Import ZArith Bool List.
From Apd Require Import Generated.Consts Model.Base Model.NumDigits Model.Decimal Model.Context Model.Text Spec.Grammar Proofs.TextProofs.
Open Scope Z_scope.

Theorem C13_coefficient_digits_roundtrip n : 0 <= n -> digits_val (digits_of n) = n /\ is_digits (digits_of n) = true.
Proof. exact (digits_roundtrip n). Qed.
Print Assumptions C13_coefficient_digits_roundtrip.

Theorem C13_special_values_roundtrip d : form_of d <> Finite ->
  set_string_raw (format_G d) = Some (mkDec (form_of d) (neg d) 0 0).
Proof. exact (specials_roundtrip d). Qed.
Print Assumptions C13_special_values_roundtrip.

Example C13_finite_examples :
  (set_string_raw (format_G (mkDec Finite true (-7) 1)), set_string_raw (format_G (mkDec Finite false (-2000) 0)),
   set_string_raw (format_G (mkDec Finite false 99998 123)), set_string_raw (format_text ch_e (mkDec Finite true (-3) 120)))
  = (Some (mkDec Finite true (-7) 1), Some (mkDec Finite false (-2000) 0), Some (mkDec Finite false 99998 123),
     Some (mkDec Finite true (-3) 120)).
Proof. vm_compute. reflexivity. Qed.
