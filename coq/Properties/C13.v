(* C13 - text and binary encodings round-trip every Decimal exactly.  Statements only; proofs in
   Proofs/TextProofs.v, Proofs/RoundTrip.v, Proofs/RoundTripFull.v.
   PROVEN, for every Decimal (any coefficient length, either sign, signed zeros, every exponent):
   - the parser inverts the formatter field for field: setString(Text(fmt)) = d for fmt in G, g, E, e (String,
     MarshalText, Value, %v %s %G %E %e print Text('G') or Text('E'/'e')), over every branch of Append (plain
     notation with and without leading "0.000", the split dd.ddd, exponent 0, scientific notation with one or
     many digits, either exponent sign, the written-out zeros down to exponent -2000);
   - Text('f') re-parses to the same sign and numeric value (a positive exponent comes back as zeros);
   - NewFromString / SetString / UnmarshalText / Scan (BaseContext: setExponent, then Round with Precision 0)
     return exactly d, no condition, no error, whenever exponent and adjusted exponent are inside the package
     limits;
   - every non-finite value (NaN, sNaN, Infinity of either sign, whatever coefficient/exponent fields they
     carry) round-trips through String(); the coefficient digit string denotes the coefficient.
   - Compose(Decompose(d)) on a destination holding ANYTHING: a finite d comes back field for field; a special
     value with its form (signaling NaN quiet, as documented) and sign, the destination's other fields untouched;
     SetBytes(Bytes(n)) = n, every byte in 0..255.
   NOT PROVEN (decided on the implementation by the harness): the SetFloat64 / Float64 bit-exact round trips
   (strconv's shortest-digit formatting is not modelled); and that the Go code
   IS this model - checked by correspondence, byte for byte / field for field, on every generated Decimal
   (switch-over points -6/-7, zeros at -1/-2000/-2001, exponents at the package limits, pad lengths at
   multiples of 32, coefficients of any length). *)
From Coq Require Import ZArith Bool List.
From Apd Require Import Generated.Consts Model.Base Model.NumDigits Model.Decimal Model.Context Model.Text Model.Compose Spec.Grammar Proofs.ComposeProofs Proofs.Core Proofs.SetExponent Proofs.TextProofs Proofs.RoundTrip Proofs.RoundTripFull.
Open Scope Z_scope.

Theorem C13_coefficient_digits_roundtrip n : 0 <= n -> digits_val (digits_of n) = n /\ is_digits (digits_of n) = true.
Proof. exact (digits_roundtrip n). Qed.
Print Assumptions C13_coefficient_digits_roundtrip.

Theorem C13_special_values_roundtrip d : form_of d <> Finite ->
  set_string_raw (format_G d) = Some (mkDec (form_of d) (neg d) 0 0).
Proof. exact (specials_roundtrip d). Qed.
Print Assumptions C13_special_values_roundtrip.

(* the parser inverts Text('G'/'g'/'E'/'e'): identical form, sign, coefficient and exponent.  exp_printable:
   the adjusted exponent is printable as an int32 (true of everything inside the package limits, see below) *)
Theorem C13_parse_inverts_format fmtc d : fmtc = ch_G \/ fmtc = ch_g \/ fmtc = ch_E \/ fmtc = ch_e ->
  form_of d = Finite -> 0 <= coeff d -> exp_printable d ->
  set_string_raw (format_text fmtc d) = Some d.
Proof. exact (text_roundtrip fmtc d). Qed.
Print Assumptions C13_parse_inverts_format.

Theorem C13_exp_printable_within_2_pow_30 d : 0 <= coeff d -> - 2 ^ 30 < exp d < 2 ^ 30 -> Z.log2 (coeff d) < 2 ^ 30 -> exp_printable d.
Proof. exact (exp_printable_ok d). Qed.
Print Assumptions C13_exp_printable_within_2_pow_30.

(* Text('f'): same sign and numeric value *)
Theorem C13_text_f_value_roundtrip d : form_of d = Finite -> 0 <= coeff d ->
  set_string_raw (format_text ch_f d) =
    Some (if exp d <? 0 then d else mkDec Finite (neg d) 0 (coeff d * 10 ^ exp d)).
Proof. exact (text_f_roundtrip d). Qed.
Print Assumptions C13_text_f_value_roundtrip.

(* the whole entry point: NewFromString(d.Text(fmt)) = (d, no condition, nil) inside the package limits *)
Theorem C13_new_from_string_roundtrip est : est_in_range est -> forall fmtc d,
  fmtc = ch_G \/ fmtc = ch_g \/ fmtc = ch_E \/ fmtc = ch_e ->
  form_of d = Finite -> 0 <= coeff d -> in_lim (exp d) -> in_lim (exp d + ndigits (coeff d) - 1) ->
  new_from_string est (format_text fmtc d) = Ok (Some (d, c0, ENone)).
Proof. exact (new_from_string_roundtrip est). Qed.
Print Assumptions C13_new_from_string_roundtrip.

Theorem C13_compose_inverts_decompose prev d : 0 <= coeff d ->
  compose_decompose prev d =
    Some (match form_of d with
          | Finite => d
          | Infinite => mkDec Infinite (neg d) (exp prev) (coeff prev)
          | _ => mkDec NaN (neg d) (exp prev) (coeff prev)
          end).
Proof. exact (compose_decompose_roundtrip prev d). Qed.
Print Assumptions C13_compose_inverts_decompose.

Theorem C13_coefficient_bytes_roundtrip n : 0 <= n ->
  bytes_val (bytes_of n) = n /\ List.Forall (fun b => 0 <= b < 256) (bytes_of n).
Proof. intros Hn. split; [exact (bytes_roundtrip n Hn)|exact (bytes_are_bytes n Hn)]. Qed.
Print Assumptions C13_coefficient_bytes_roundtrip.

Example C13_finite_examples :
  (set_string_raw (format_G (mkDec Finite true (-7) 1)), set_string_raw (format_G (mkDec Finite false (-2000) 0)),
   set_string_raw (format_G (mkDec Finite false 99998 123)), set_string_raw (format_text ch_e (mkDec Finite true (-3) 120)))
  = (Some (mkDec Finite true (-7) 1), Some (mkDec Finite false (-2000) 0), Some (mkDec Finite false 99998 123),
     Some (mkDec Finite true (-3) 120)).
Proof. vm_compute. reflexivity. Qed.
