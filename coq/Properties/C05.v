(* C05 - any argument may alias the destination or another argument.  Statements only; proofs in
   Imp/AliasProofs.v.  The imperative layer (Imp/Mem.v, Imp/Ops.v) transliterates Decimal.Set, Neg, Abs
   and Modf statement by statement - the Go order of reads and writes of the fields of caller-visible
   objects - over pointers ranging over three objects that may coincide.  Each theorem: under EVERY
   pointer assignment the final memory is the initial memory with the destination(s) replaced by the
   PURE function of the operand's INITIAL value.  Modf: integ and frac may each be the receiver or nil.
   The Context methods and BigInt are covered differently: the pure model (C01...C10) is a function of
   operand values, and the implementation is run under all alias patterns {distinct, d==x, d==y, x==y,
   d==x==y} in the arithmetic and alias streams and compared with it and with itself; BigInt aliasing is
   register coincidence in C16's method-sequence theorem. *)
From Coq Require Import ZArith Bool List.
From Apd Require Import Generated.Consts Model.Base Model.NumDigits Imp.Mem Imp.Ops Imp.AliasProofs.
Open Scope Z_scope.

Theorem C05_set d x m : wf_mem m -> mem_eq (snd (run (set_imp d x) m)) (put m d (set_pure (get m x))).
Proof. exact (set_imp_pure d x m). Qed.
Print Assumptions C05_set.
Theorem C05_abs d x m : wf_mem m -> mem_eq (snd (run (abs_imp d x) m)) (put m d (abs_pure (get m x))).
Proof. exact (abs_imp_pure d x m). Qed.
Print Assumptions C05_abs.
Theorem C05_neg d x m : wf_mem m -> mem_eq (snd (run (neg_imp d x) m)) (put m d (neg_pure (get m x))).
Proof. exact (neg_imp_pure d x m). Qed.
Print Assumptions C05_neg.
Theorem C05_modf d integ frac m : wf_mem m -> distinct_opt integ frac ->
  mem_eq (snd (run (modf_imp d integ frac) m))
         (put_opt (put_opt m integ (fst (modf_pure (get m d)))) frac (snd (modf_pure (get m d)))).
Proof. exact (modf_imp_pure d integ frac m). Qed.
Print Assumptions C05_modf.

(* x.Modf(x, &f) for 123.45: f = 0.45 although x has already become 123 (the order of writes matters) *)
Example C05_modf_alias_example :
  let m0 : mem := fun a => match a with (OA, FExp) => -2 | (OA, FCoeff) => 12345 | _ => 0 end in
  let m := snd (run (modf_imp OA (Some OA) (Some OB)) m0) in
  (get m OA, get m OB) = (mkDec Finite false 0 123, mkDec Finite false (-2) 45).
Proof. vm_compute. reflexivity. Qed.
