(* C05 - any argument may alias the destination or another argument.  Statements only; proofs in
   Imp/AliasProofs.v.  The imperative layer (Imp/Mem.v, Imp/Ops.v) transliterates Decimal.Set, Neg, Abs
   and Modf statement by statement - the Go order of reads and writes of the fields of caller-visible
   objects - over pointers ranging over three objects that may coincide.  Each theorem: under EVERY
   pointer assignment the final memory is the initial memory with the destination(s) replaced by the
   PURE function of the operand's INITIAL value.  Modf: integ and frac may each be the receiver or nil.
   Context.Add, Sub, Mul, Rem, QuoInteger, Abs, Neg, Round, quoSpecials and setAsNaN (Imp/CtxOps.v, same transliteration discipline: the NaN
   tests, d.Set, the late reads of the operand coefficients through the pointers upscale returns - after
   d.Negative has been written -, the sign fix-ups on d, c.round(d, d) as one read-compute-write on d): under
   EVERY assignment of d, x, y to objects the call returns the Condition of the pure model (Model/Context.v,
   the same ctx_add / ctx_abs / ... that C01-C08 are about) applied to the operands' INITIAL values, and the
   final memory is the initial memory with d replaced by the model's result.
   The other Context methods and BigInt are covered differently: the pure model is a function of operand
   values, and the implementation is run under all alias patterns {distinct, d==x, d==y, x==y, d==x==y} in the
   arithmetic and alias streams and compared with it and with itself; BigInt aliasing is register coincidence
   in C16's method-sequence theorem. *)
From Coq Require Import ZArith Bool List.
From Apd Require Import Generated.Consts Model.Base Model.NumDigits Model.Decimal Model.Context Imp.Mem Imp.Ops Imp.AliasProofs Imp.CtxOps Imp.CtxProofs Imp.CtxMulProofs Imp.CtxRemProofs Imp.CtxQuoIntProofs Imp.CtxOps2 Imp.CtxQuantReduceProofs Proofs.Core Proofs.SetExponent.
Open Scope Z_scope.

Theorem C05_set d x m : wf_mem m -> mem_eq (snd (run (set_imp d x) m)) (put m d (set_pure (get m x))).
Proof. exact (set_imp_pure d x m). Qed.
Print Assumptions C05_set.
Theorem C05_abs d x m : wf_mem m -> mem_eq (snd (run (abs_imp d x) m)) (put m d (abs_pure (get m x))).
Proof. exact (abs_imp_pure d x m). Qed.
Print Assumptions C05_abs.
Theorem C05_neg d x m : wf_mem m -> mem_eq (snd (run (neg_imp d x) m)) (put m d (neg_pure (get m x))).
Proof. exact (neg_imp_pure d x m). Qed.
Print Assumptions C05_neg.
Theorem C05_modf d integ frac m : wf_mem m -> distinct_opt integ frac ->
  mem_eq (snd (run (modf_imp d integ frac) m))
         (put_opt (put_opt m integ (fst (modf_pure (get m d)))) frac (snd (modf_pure (get m d)))).
Proof. exact (modf_imp_pure d integ frac m). Qed.
Print Assumptions C05_modf.

(* Context methods: outcome_of r is the Condition (or the failure) the model's result r carries, mem_after m d r
   is m with d replaced by the model's result (m itself when nothing is delivered) *)
Theorem C05_context_add_sub est c sub d x y m : wf_mem m ->
  let r := ctx_add est c (get m x) (get m y) sub in
  fst (run (add_imp est c sub d x y) m) = outcome_of r /\
  (forall r0, r = Ok r0 -> mem_eq (snd (run (add_imp est c sub d x y) m)) (mem_after m d r)).
Proof. exact (add_imp_pure est c sub d x y m). Qed.
Print Assumptions C05_context_add_sub.
Theorem C05_context_abs est c d x m : wf_mem m ->
  let r := ctx_abs est c (get m x) in
  fst (run (ctx_abs_imp est c d x) m) = outcome_of r /\
  (forall r0, r = Ok r0 -> mem_eq (snd (run (ctx_abs_imp est c d x) m)) (mem_after m d r)).
Proof. exact (ctx_abs_imp_pure est c d x m). Qed.
Print Assumptions C05_context_abs.
Theorem C05_context_neg est c d x m : wf_mem m ->
  let r := ctx_neg est c (get m x) in
  fst (run (ctx_neg_imp est c d x) m) = outcome_of r /\
  (forall r0, r = Ok r0 -> mem_eq (snd (run (ctx_neg_imp est c d x) m)) (mem_after m d r)).
Proof. exact (ctx_neg_imp_pure est c d x m). Qed.
Print Assumptions C05_context_neg.
Theorem C05_context_round est c d x m : wf_mem m ->
  let r := ctx_round_op est c (get m x) in
  fst (run (ctx_round_imp est c d x) m) = outcome_of r /\
  (forall r0, r = Ok r0 -> mem_eq (snd (run (ctx_round_imp est c d x) m)) (mem_after m d r)).
Proof. exact (ctx_round_imp_pure est c d x m). Qed.
Print Assumptions C05_context_round.
(* Context.Mul: d.Coeff, d.Negative, d.Form are written BEFORE the operand exponents are read and before
   setExponent rounds a subnormal product with d.Negative; inside the package's exponent limits the call is the
   model's ctx_mul of the initial operand values under every pointer assignment *)
Theorem C05_context_mul est : est_in_range est -> forall c d x y m, wf_mem m ->
  0 <= m (x, FCoeff) -> 0 <= m (y, FCoeff) -> in_lim (m (x, FExp)) -> in_lim (m (y, FExp)) ->
  in_lim (m (x, FExp) + m (y, FExp) + ndigits (m (x, FCoeff) * m (y, FCoeff)) - 1) ->
  let r := ctx_mul est c (get m x) (get m y) in
  fst (run (mul_imp est c d x y) m) = outcome_of r /\
  (forall r0, r = Ok r0 -> mem_eq (snd (run (mul_imp est c d x y) m)) (mem_after m d r)).
Proof. exact (mul_imp_pure est). Qed.
Print Assumptions C05_context_mul.
(* Context.Rem: QuoRem writes the remainder into d.Coeff while a, b may still point into x and y; x.Negative is
   read after d.Coeff, d.Form and d.Exponent have been written *)
Theorem C05_context_rem est c d x y m : wf_mem m ->
  let r := ctx_rem est c (get m x) (get m y) in
  fst (run (rem_imp est c d x y) m) = outcome_of r /\
  (forall r0, r = Ok r0 -> mem_eq (snd (run (rem_imp est c d x y) m)) (mem_after m d r)).
Proof. exact (rem_imp_pure est c d x y m). Qed.
Print Assumptions C05_context_rem.
(* Context.QuoInteger with quoSpecials (NaNs, infinities, zero divisor, zero precision) *)
Theorem C05_context_quo_integer est c d x y m : wf_mem m ->
  let r := ctx_quo_integer est c (get m x) (get m y) in
  fst (run (quo_integer_imp est c d x y) m) = outcome_of r /\
  (forall r0, r = Ok r0 -> mem_eq (snd (run (quo_integer_imp est c d x y) m)) (mem_after m d r)).
Proof. exact (quo_integer_imp_pure est c d x y m). Qed.
Print Assumptions C05_context_quo_integer.
(* Context.Quo with quoSpecials: every operand field is read before the first write of the destination *)
Theorem C05_context_quo est c d x y m : wf_mem m ->
  let r := ctx_quo est c (get m x) (get m y) in
  fst (run (quo_imp est c d x y) m) = outcome_of r /\
  (forall r0, r = Ok r0 -> mem_eq (snd (run (quo_imp est c d x y) m)) (mem_after m d r)).
Proof. exact (quo_imp_pure est c d x y m). Qed.
Print Assumptions C05_context_quo.
(* Context.Quantize and Context.Reduce: the operand is read (form, exponent), copied into the destination, and the rest
   works on the destination alone *)
Theorem C05_context_quantize est c e d x m : wf_mem m ->
  let r := ctx_quantize est c (get m x) e in
  fst (run (quantize_imp est c e d x) m) = outcome_of r /\
  (forall r0, r = Ok r0 -> mem_eq (snd (run (quantize_imp est c e d x) m)) (mem_after m d r)).
Proof. exact (quantize_imp_pure est c e d x m). Qed.
Print Assumptions C05_context_quantize.
Theorem C05_context_reduce est c d x m : wf_mem m ->
  let r := do v <- ctx_reduce est c (get m x); Ok (fst v) in
  fst (run (reduce_imp est c d x) m) = outcome_of r /\
  (forall r0, r = Ok r0 -> mem_eq (snd (run (reduce_imp est c d x) m)) (mem_after m d r)).
Proof. exact (reduce_imp_pure est c d x m). Qed.
Print Assumptions C05_context_reduce.
(* setAsNaN, used by every Context method: d may be the (signaling) NaN operand itself *)
Theorem C05_set_as_nan c d x y m : wf_mem m ->
  should_set_as_nan (get m x) (option_map (get m) y) = true ->
  let r := set_as_nan c (get m x) (option_map (get m) y) in
  fst (run (set_as_nan_imp d x y) m) = outcome_of (Ok r) /\
  mem_eq (snd (run (set_as_nan_imp d x y) m)) (mem_after m d (Ok r)).
Proof. exact (set_as_nan_spec c d x y m). Qed.
Print Assumptions C05_set_as_nan.

(* x.Sub(x, x, x) in memory: d == x == y; 12.5 - 12.5 under RoundFloor is -0.0 *)
Example C05_sub_all_aliased :
  let m0 : mem := fun a => match a with (OA, FExp) => -1 | (OA, FCoeff) => 125 | _ => 0 end in
  let c := mkCtx 5 9 (-9) c0 RFloor in
  get (snd (run (add_imp go_est c true OA OA OA) m0)) OA = mkDec Finite true (-1) 0.
Proof. vm_compute. reflexivity. Qed.

(* x.Modf(x, &f) for 123.45: f = 0.45 although x has already become 123 (the order of writes matters) *)
Example C05_modf_alias_example :
  let m0 : mem := fun a => match a with (OA, FExp) => -2 | (OA, FCoeff) => 12345 | _ => 0 end in
  let m := snd (run (modf_imp OA (Some OA) (Some OB)) m0) in
  (get m OA, get m OB) = (mkDec Finite false 0 123, mkDec Finite false (-2) 45).
Proof. vm_compute. reflexivity. Qed.
