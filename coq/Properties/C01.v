(* C01 - Add/Sub/Mul/Abs/Neg/Round return the exactly rounded result.  Statements only.
   E is the exact mathematical result ((-1)^sign * integer * 10^exponent, Spec/SpecZ.v: exact_add,
   exact_mul, ...); spec_round_nz is the specification's single rounding of E to the context (Precision
   digits in the selected mode, or to Etiny below the normal range, or to Infinity above Emax), written
   on integers independently of the model; [matches d S] says that d denotes S (value and sign).
   c01_post also fixes the sign of a zero result.  exact_in_limits: the exact result stays inside the
   package's +-100000 exponent limits ("subject only to the exponent limits").  [est]: the float
   estimate of NumDigits - every theorem holds for every estimate in range.
   All eight operations of the property are covered: Round, Abs, Neg, Add, Sub, Mul, Quo and context-aware
   parsing (the parser's acceptance set itself is C14's). *)
From Coq Require Import ZArith Bool.
From Apd Require Import Generated.Consts Model.Base Model.NumDigits Model.Decimal Model.Context Model.Text Spec.SpecZ
  Proofs.Core Proofs.SetExponent Proofs.RoundSpec Proofs.OpsProofs Proofs.QuoProofs Proofs.SeRoundProofs Proofs.OpsProjections.
Open Scope Z_scope.

Theorem C01_round est : est_in_range est -> forall c (x : dec), ctx_ok c -> finite_nn x -> exact_in_limits c (exact_of_dec x) ->
  exists d f, ctx_round_op est c x = Ok (finish c d f) /\ c01_post c (exact_of_dec x) d.
Proof. exact (c01_round est). Qed.
Print Assumptions C01_round.

Theorem C01_abs est : est_in_range est -> forall c (x : dec), ctx_ok c -> finite_nn x -> exact_in_limits c (exact_abs x) ->
  exists d f, ctx_abs est c x = Ok (finish c d f) /\ c01_post c (exact_abs x) d.
Proof. exact (c01_abs est). Qed.
Print Assumptions C01_abs.

Theorem C01_neg est : est_in_range est -> forall c (x : dec), ctx_ok c -> finite_nn x -> exact_in_limits c (exact_neg x) ->
  exists d f, ctx_neg est c x = Ok (finish c d f) /\ c01_post c (exact_neg x) d.
Proof. exact (c01_neg est). Qed.
Print Assumptions C01_neg.

Theorem C01_add_sub est : est_in_range est -> forall c (x y : dec) (sub : bool), ctx_ok c -> finite_nn x -> finite_nn y -> Z.abs (exp x - exp y) <= MaxExponent -> exact_in_limits c (exact_add x y sub (rounder_eqb (rounding c) RFloor)) ->
  exists d f, ctx_add est c x y sub = Ok (finish c d f) /\ c01_post c (exact_add x y sub (rounder_eqb (rounding c) RFloor)) d.
Proof. exact (c01_add_sub est). Qed.
Print Assumptions C01_add_sub.

(* Mul: for EVERY pair of finite operands - the exact product in, above or below the context's exponent
   range (below Emin setExponent rounds once to Etiny and the round that follows finds nothing left to do) *)
Theorem C01_mul est : est_in_range est -> forall c (x y : dec), mul_hyps c x y ->
  exists d f, ctx_mul est c x y = Ok (finish c d f) /\ c01_post c (exact_mul x y) d.
Proof. exact (c01_mul est). Qed.
Print Assumptions C01_mul.

(* the specification's integer rounding brackets the exact quotient *)
Theorem C01_spec_rounding_brackets mode ng n k : 0 <= n -> 0 < k -> n / k <= rndZ mode ng n k <= n / k + 1.
Proof. exact (RoundBasics.rndZ_bounds mode ng n k). Qed.
Print Assumptions C01_spec_rounding_brackets.

(* Quo: for EVERY pair of finite operands with a non-zero divisor - any digit counts, any exponents, ties,
   all-nines carries, quotients in, above and below the normal range (where Quo keeps the remainder as a
   sticky digit and setExponent rounds once to Etiny).  quo_hyps: well-formed context and operands, and
   the exponent of the quotient (mag_frac: its decimal magnitude) stays inside the package limits with
   room for a carry ("subject only to the exponent limits"). *)
Theorem C01_quo est : est_in_range est -> forall c (x y : dec), quo_hyps c x y ->
  exists d f, ctx_quo est c x y = Ok (finish c d f) /\ c01_post c (exact_quo x y) d.
Proof. exact (c01_quo est). Qed.
Print Assumptions C01_quo.

(* non-vacuity: concrete operands satisfying every hypothesis, and what the model returns *)
Example C01_example_hyps :
  let c := mkCtx 3 5 (-5) c0 RFloor in
  let x := mkDec Finite true (-9) 15 in
  ctx_ok c /\ finite_nn x /\ exact_in_limits c (exact_of_dec x).
Proof. unfold ctx_ok, finite_nn, exact_in_limits, SetExponent.in_lim. cbn. repeat split; try discriminate; try Lia.lia. Qed.
Example C01_example_run :
  let c := mkCtx 3 5 (-5) c0 RFloor in
  rdec_value (ctx_round_op go_est c (mkDec Finite true (-9) 15)) = Some (mkDec Finite true (-7) 1).
Proof. vm_compute. reflexivity. Qed.

(* context-aware parsing (Context.SetString / NewFromString): when the string parses to a finite number d
   (set_string_raw: the parser of Model/Text.v, tied to /repo by the text stream; its acceptance set is C14's
   business), the call returns d rounded once to the context - value (C01), flags (C02) and fit (C07) - or,
   when a condition raised while the exponent is set is trapped, the error and no value *)
Theorem C01_set_string est : est_in_range est -> forall c s (d : dec), set_string_raw s = Some d -> set_string_hyps c d ->
  exists d2 f, c01_post c (exact_of_dec d) d2 /\ c02_post c (exact_of_dec d) d2 f /\ c07_post c d2 /\
    (ctx_set_string est c s = Ok (Some (d2, f, ctx_go_error c f)) \/ ctx_set_string est c s = Ok None).
Proof. exact (c01_c02_c07_set_string est). Qed.
Print Assumptions C01_set_string.

(* Mul below Emin, non-vacuity: 0.0012 * 0.0034 at Precision 3, Emin -5 (exact 4.08E-6, Etiny -7) *)
Example C01_mul_example_hyps :
  mul_hyps (mkCtx 3 5 (-5) c0 RHalfEven) (mkDec Finite false (-4) 12) (mkDec Finite true (-4) 34).
Proof.
  unfold mul_hyps, ctx_ok, finite_nn, exact_in_limits, clamp_ok, SetExponent.in_lim. cbn [prec emin emax form_of coeff exp exact_mul xnum xden xexp].
  repeat split; try discriminate; try Lia.lia; vm_compute; try Lia.lia; intros; discriminate.
Qed.
Example C01_mul_example_run :
  rdec_value (ctx_mul go_est (mkCtx 3 5 (-5) c0 RHalfEven) (mkDec Finite false (-4) 12) (mkDec Finite true (-4) 34))
  = Some (mkDec Finite true (-7) 41).
Proof. vm_compute. reflexivity. Qed.

(* Quo, non-vacuity: the witness of the repaired defect F3 (a subnormal quotient whose remainder decides the
   rounding) satisfies every hypothesis, and the model returns the correctly rounded 2E-7 *)
Example C01_quo_example_hyps :
  quo_hyps (mkCtx 3 5 (-5) c0 RHalfDown) (mkDec Finite false (-14) 15000001) (mkDec Finite false 0 1).
Proof.
  unfold quo_hyps, ctx_ok, finite_nn, quo_limits, SetExponent.in_lim. cbn [prec emin emax form_of coeff exp].
  repeat split; try discriminate; try Lia.lia; vm_compute; try Lia.lia; intros; discriminate.
Qed.
Example C01_quo_example_run :
  rdec_value (ctx_quo go_est (mkCtx 3 5 (-5) c0 RHalfDown) (mkDec Finite false (-14) 15000001) (mkDec Finite false 0 1))
  = Some (mkDec Finite false (-7) 2).
Proof. vm_compute. reflexivity. Qed.

(* ---------- Precision 0 (rounding disabled, as in BaseContext) ----------
   Round, Abs, Neg, Add, Sub and Mul return the exact result itself - any number of digits, no condition -
   whenever its adjusted exponent lies inside the context's exponent range (exact_in_range: "subject only
   to the exponent limits").  Below MinExponent apd with Precision 0 rounds to an Etiny of MinExponent + 1;
   the property does not say what that corner should be, and it is left to the correspondence check. *)
From Apd Require Import Proofs.P0Proofs.

Theorem C01_precision0_round est : est_in_range est -> forall c (x : dec), prec c = 0 -> finite_nn x -> exact_in_range c (exact_of_dec x) ->
  exists d f, ctx_round_op est c x = Ok (finish c d f) /\ p0_post (exact_of_dec x) d f.
Proof. exact (round_op_p0 est). Qed.
Print Assumptions C01_precision0_round.

Theorem C01_precision0_abs est : est_in_range est -> forall c (x : dec), prec c = 0 -> finite_nn x -> exact_in_range c (exact_abs x) ->
  exists d f, ctx_abs est c x = Ok (finish c d f) /\ p0_post (exact_abs x) d f.
Proof. exact (abs_p0 est). Qed.
Print Assumptions C01_precision0_abs.

Theorem C01_precision0_neg est : est_in_range est -> forall c (x : dec), prec c = 0 -> finite_nn x -> exact_in_range c (exact_neg x) ->
  exists d f, ctx_neg est c x = Ok (finish c d f) /\ p0_post (exact_neg x) d f.
Proof. exact (neg_p0 est). Qed.
Print Assumptions C01_precision0_neg.

Theorem C01_precision0_add_sub est : est_in_range est -> forall c (x y : dec) (sub : bool), prec c = 0 -> finite_nn x -> finite_nn y ->
  Z.abs (exp x - exp y) <= MaxExponent -> exact_in_range c (exact_add x y sub (rounder_eqb (rounding c) RFloor)) ->
  exists d f, ctx_add est c x y sub = Ok (finish c d f) /\ p0_post (exact_add x y sub (rounder_eqb (rounding c) RFloor)) d f.
Proof. exact (add_p0 est). Qed.
Print Assumptions C01_precision0_add_sub.

Theorem C01_precision0_mul est : est_in_range est -> forall c (x y : dec), prec c = 0 -> finite_nn x -> finite_nn y ->
  in_lim (exp x) -> in_lim (exp y) -> exact_in_range c (exact_mul x y) ->
  exists d f, ctx_mul est c x y = Ok (finish c d f) /\ p0_post (exact_mul x y) d f.
Proof. exact (mul_p0 est). Qed.
Print Assumptions C01_precision0_mul.

(* ---------- what the specification means, in the standard vocabulary of floating-point rounding ----------
   Spec-Z (rndZ, spec_round_nz: integers only, executable, the specification every theorem above is stated
   against) computes Flocq's roundings: the integer rounding of a signed real in each of the nine mode
   names (Spec/SpecR.v: rnd_of - Ztrunc, Zaway, Zceil, Zfloor, ZnearestE, nearest with ties away from /
   toward zero, and round-05-up), the rounding of the exact value to the context's decimal format
   round radix10 (FLT_exp Etiny Precision), and an overflow exactly when that rounded magnitude reaches
   10^(Emax+1).  These theorems use the real numbers of Coq's standard library (its axioms are listed). *)
From Coq Require Import Reals.
From Flocq Require Import Core.
From Apd Require Import Spec.SpecR Proofs.SpecRProofs.

Theorem C01_spec_is_flocq_integer_rounding : forall m (ng : bool) n d, 0 <= n -> 0 < d ->
  let s := if ng then -1 else 1 in
  rnd_of m (IZR s * (IZR n / IZR d)) = s * rndZ m ng n d.
Proof. exact rndZ_is_flocq_rounding. Qed.
Print Assumptions C01_spec_is_flocq_integer_rounding.

Theorem C01_spec_is_flocq_format_rounding : forall p emin_ emax_ mode (E : exact), 1 <= p -> 0 < xnum E -> 0 < xden E ->
  let S := spec_round_nz p emin_ emax_ mode E in
  s_overflow S = false ->
  sres_R (s_res S) = Some (round_ctx p emin_ mode (E2R E)).
Proof. exact spec_round_is_flocq. Qed.
Print Assumptions C01_spec_is_flocq_format_rounding.

Theorem C01_spec_overflow_is_flocq : forall p emin_ emax_ mode (E : exact), 1 <= p -> 0 < xnum E -> 0 < xden E ->
  let S := spec_round_nz p emin_ emax_ mode E in
  (s_overflow S = true <-> (bpow radix10 (emax_ + 1) <= Rabs (round_ctx p emin_ mode (E2R E)))%R).
Proof. exact spec_overflow_is_flocq. Qed.
Print Assumptions C01_spec_overflow_is_flocq.
