(* C03 - traps turn raised conditions into errors and never change or hide results.  Statements only;
   proofs in Proofs/TrapsProofs.v.
   [strip r] is what a call delivers apart from the error: the destination (None = untouched) and the
   Condition.  [with_traps c t] is c with trap set t.  For the fifteen single-rounding operations of the
   model (Add, Sub, Mul, Quo, QuoInteger, Rem, Abs, Neg, Round, Quantize, RoundToIntegralValue/Exact,
   Reduce, Cmp and, via Add, Ceil/Floor) and EVERY trap set, operands and context:
     - the delivered destination and Condition are those of the call under any other trap set (..._indep);
     - the error is exactly go_error (traps c) (Condition) - nil iff no trapped or system condition is in it,
       otherwise the trapped subset - or a system-limit error that delivers nothing (the ..._wf lemmas and go_error_none, go_error_trap).
   ErrDecimal: once an error is held every later call leaves all registers and flags untouched, for any
   program (induction over the method sequence); otherwise the wrapper performs exactly the Context
   operation of the same name and accumulates its flags.
   Sqrt, Cbrt (modelled in full, Model/Roots.v) and Exp (Model/Exp.v, the float-derived integers as inputs): the
   three theorems before the ErrDecimal block.  Ln, Log10 and Pow are not modelled beyond their prologues: for them the property is decided by the trap
   differential on the implementation (same call with and without the trap set) and by the
   reference-interpreter comparison of ErrDecimal programs. *)
From Coq Require Import ZArith Bool List.
From Apd Require Import Generated.Consts Model.Base Model.NumDigits Model.Decimal Model.Context Model.ErrDec Proofs.TrapsProofs Model.Roots Model.Exp Model.Ln Proofs.RootsTraps Proofs.ExpTraps Proofs.LnTraps Model.LnHalley Model.Pow Proofs.LnHalleyTraps Proofs.PowTraps.
Open Scope Z_scope.

Theorem C03_error_nil_iff traps r : go_error traps r = ENone <->
  SystemOverflow r = false /\ SystemUnderflow r = false /\ cond_any (cand r traps) = false.
Proof. exact (go_error_none traps r). Qed.
Print Assumptions C03_error_nil_iff.

Theorem C03_trap_error_is_trapped_subset traps r t : go_error traps r = ETrap t -> t = cand r traps /\ cond_any t = true.
Proof. exact (go_error_trap traps r t). Qed.
Print Assumptions C03_trap_error_is_trapped_subset.

Theorem C03_add_sub est c t x y s : strip (ctx_add est (with_traps c t) x y s) = strip (ctx_add est c x y s) /\ err_wf c (ctx_add est c x y s).
Proof. exact (conj (add_indep est c t x y s) (add_wf est c x y s)). Qed.
Print Assumptions C03_add_sub.
Theorem C03_mul est c t x y : strip (ctx_mul est (with_traps c t) x y) = strip (ctx_mul est c x y) /\ err_wf c (ctx_mul est c x y).
Proof. exact (conj (mul_indep est c t x y) (mul_wf est c x y)). Qed.
Print Assumptions C03_mul.
Theorem C03_quo est c t x y : strip (ctx_quo est (with_traps c t) x y) = strip (ctx_quo est c x y) /\ err_wf c (ctx_quo est c x y).
Proof. exact (conj (quo_indep est c t x y) (quo_wf est c x y)). Qed.
Print Assumptions C03_quo.
Theorem C03_quo_integer est c t x y : strip (ctx_quo_integer est (with_traps c t) x y) = strip (ctx_quo_integer est c x y) /\ err_wf c (ctx_quo_integer est c x y).
Proof. exact (conj (quo_integer_indep est c t x y) (quo_integer_wf est c x y)). Qed.
Print Assumptions C03_quo_integer.
Theorem C03_rem est c t x y : strip (ctx_rem est (with_traps c t) x y) = strip (ctx_rem est c x y) /\ err_wf c (ctx_rem est c x y).
Proof. exact (conj (rem_indep est c t x y) (rem_wf est c x y)). Qed.
Print Assumptions C03_rem.
Theorem C03_abs est c t x : strip (ctx_abs est (with_traps c t) x) = strip (ctx_abs est c x) /\ err_wf c (ctx_abs est c x).
Proof. exact (conj (abs_indep est c t x) (abs_wf est c x)). Qed.
Print Assumptions C03_abs.
Theorem C03_neg est c t x : strip (ctx_neg est (with_traps c t) x) = strip (ctx_neg est c x) /\ err_wf c (ctx_neg est c x).
Proof. exact (conj (neg_indep est c t x) (neg_wf est c x)). Qed.
Print Assumptions C03_neg.
Theorem C03_round est c t x : strip (ctx_round_op est (with_traps c t) x) = strip (ctx_round_op est c x) /\ err_wf c (ctx_round_op est c x).
Proof. exact (conj (round_indep est c t x) (round_wf est c x)). Qed.
Print Assumptions C03_round.
Theorem C03_quantize est c t x q : strip (ctx_quantize est (with_traps c t) x q) = strip (ctx_quantize est c x q) /\ err_wf c (ctx_quantize est c x q).
Proof. exact (conj (quantize_indep est c t x q) (quantize_wf est c x q)). Qed.
Print Assumptions C03_quantize.
Theorem C03_round_to_integral est c t x :
  strip (ctx_rti_value est (with_traps c t) x) = strip (ctx_rti_value est c x) /\ err_wf c (ctx_rti_value est c x) /\
  strip (ctx_rti_exact est (with_traps c t) x) = strip (ctx_rti_exact est c x) /\ err_wf c (ctx_rti_exact est c x).
Proof. exact (conj (rti_value_indep est c t x) (conj (rti_value_wf est c x) (conj (rti_exact_indep est c t x) (rti_exact_wf est c x)))). Qed.
Print Assumptions C03_round_to_integral.
Theorem C03_reduce est c t x : strip2 (ctx_reduce est (with_traps c t) x) = strip2 (ctx_reduce est c x) /\ err_wf c (do v <- ctx_reduce est c x; Ok (fst v)).
Proof. exact (conj (reduce_indep est c t x) (reduce_wf est c x)). Qed.
Print Assumptions C03_reduce.
Theorem C03_cmp est c t x y : strip (ctx_cmp est (with_traps c t) x y) = strip (ctx_cmp est c x y) /\ err_wf c (ctx_cmp est c x y).
Proof. exact (conj (cmp_indep est c t x y) (cmp_wf est c x y)). Qed.
Print Assumptions C03_cmp.
Theorem C03_ceil_floor est c t x :
  strip (ctx_ceil est (with_traps c t) x) = strip (ctx_ceil est c x) /\ strip (ctx_floor est (with_traps c t) x) = strip (ctx_floor est c x).
Proof. exact (conj (ceil_indep est c t x) (floor_indep est c t x)). Qed.
Print Assumptions C03_ceil_floor.

(* the composite functions that are modelled in full.  Cbrt iterates under a private context: value and
   Condition never depend on the caller's traps.  Sqrt runs every internal step under the caller's traps through
   an ErrDecimal (the first trapped condition ends the computation): whenever the call returns NO error, the
   call with an empty trap set returns the same value and the same Condition. *)
Theorem C03_cbrt est c t x : strip (ctx_cbrt est (with_traps c t) x) = strip (ctx_cbrt est c x).
Proof. exact (cbrt_indep est c t x). Qed.
Print Assumptions C03_cbrt.
Theorem C03_sqrt_nil_error_means_untrapped_result est c x r : ctx_sqrt est c x = Ok r -> rerr r = ENone ->
  strip (ctx_sqrt est (with_traps c c0) x) = Ok (rdec r, rcond r).
Proof. exact (sqrt_untrapped est c x r). Qed.
Print Assumptions C03_sqrt_nil_error_means_untrapped_result.

(* Exp (Model/Exp.v), for EVERY value of the two integers the code derives from float64 arithmetic: the series and
   the power run under an ErrDecimal with the caller's traps; a call that returns no error returns the value and the
   Condition of the call with an empty trap set *)
Theorem C03_exp_nil_error_means_untrapped_result est cp n c x r : ctx_exp_with est cp n c x = Ok r -> rerr r = ENone ->
  strip (ctx_exp_with est cp n (with_traps c c0) x) = Ok (rdec r, rcond r).
Proof. exact (exp_untrapped est cp n c x r). Qed.
Print Assumptions C03_exp_nil_error_means_untrapped_result.

(* Ln on its power-series path (Model/Ln.v; None = Halley's iteration, not modelled), for every content of the
   constant table: a call that returns no error returns the value and Condition of the untrapped call *)
Theorem C03_ln_series_nil_error_means_untrapped_result est tab c x r : ctx_ln_series est tab c x = Ok (Some r) -> rerr r = ENone ->
  exists r', ctx_ln_series est tab (with_traps c c0) x = Ok (Some r') /\ rdec r' = rdec r /\ rcond r' = rcond r.
Proof. exact (ln_untrapped est tab c x r). Qed.
Print Assumptions C03_ln_series_nil_error_means_untrapped_result.

(* Log10 (series path of its inner Ln): the logarithm is computed under a private context and multiplied with no
   traps: value and Condition never depend on the caller's traps *)
Theorem C03_log10_series est tab tab2 c t x :
  match ctx_log10_series est tab tab2 (with_traps c t) x, ctx_log10_series est tab tab2 c x with
  | Ok (Some r'), Ok (Some r) => rdec r' = rdec r /\ rcond r' = rcond r
  | Ok None, Ok None => True
  | Panic w', Panic w => w' = w
  | OutOfFuel, OutOfFuel => True
  | _, _ => False
  end.
Proof. exact (log10_indep est tab tab2 c t x). Qed.
Print Assumptions C03_log10_series.

(* Ln in full (power series or Halley's iteration), for every value of its float-derived inputs: a nil error means
   the untrapped result *)
Theorem C03_ln_nil_error_means_untrapped_result est tab a0 exps c x r :
  ctx_ln_full est tab a0 exps c x = Ok (Some r) -> rerr r = ENone ->
  exists r', ctx_ln_full est tab a0 exps (with_traps c c0) x = Ok (Some r') /\ rdec r' = rdec r /\ rcond r' = rcond r.
Proof. exact (ln_full_untrapped est tab a0 exps c x r). Qed.
Print Assumptions C03_ln_nil_error_means_untrapped_result.

(* Log10 and Pow in full: every internal step runs under a private context, value and Condition never depend on the
   caller's traps, for every value of the float-derived inputs *)
Theorem C03_log10 est tab tab2 a0 exps c t x :
  same_out (ctx_log10_full est tab tab2 a0 exps (with_traps c t) x) (ctx_log10_full est tab tab2 a0 exps c x).
Proof. exact (log10_full_indep est tab tab2 a0 exps c t x). Qed.
Print Assumptions C03_log10.
Theorem C03_pow est tab cp n a0 exps c t x y :
  same_out (ctx_pow_with est tab cp n a0 exps (with_traps c t) x y) (ctx_pow_with est tab cp n a0 exps c x y).
Proof. exact (pow_indep est tab cp n a0 exps c t x y). Qed.
Print Assumptions C03_pow.

(* ErrDecimal over arbitrary method sequences *)
Theorem C03_errdecimal_sticky est c p s : ed_err s <> ENone -> ed_run est c s p = Ok s.
Proof. exact (ed_run_sticky est c p s). Qed.
Print Assumptions C03_errdecimal_sticky.
Theorem C03_errdecimal_performs_context_op est c s st : ed_err s = ENone -> ctx_go_error c (ed_flags s) = ENone ->
  ed_step est c s st =
    do r <- ed_call est c st s;
    Ok (mkEd (match rdec r with Some d => set_nth (ed_regs s) (s_dst st) d | None => ed_regs s end)
             (ed_flags s ||| rcond r) (rerr r)).
Proof. exact (ed_step_performs est c s st). Qed.
Print Assumptions C03_errdecimal_performs_context_op.
Theorem C03_errdecimal_trapped_flag_surfaces est c s st : ed_err s = ENone -> ctx_go_error c (ed_flags s) <> ENone ->
  ed_step est c s st = Ok (mkEd (ed_regs s) (ed_flags s) (ctx_go_error c (ed_flags s))).
Proof. exact (ed_step_trapped est c s st). Qed.
Print Assumptions C03_errdecimal_trapped_flag_surfaces.

Example C03_example :   (* Inexact trapped: the error names it, the rounded result is still delivered *)
  let c := mkCtx 2 9 (-9) fInexact RHalfEven in
  match ctx_round_op go_est c (mkDec Finite false 0 125) with
  | Ok r => (rdec r, rerr r) = (Some (mkDec Finite false 1 12), ETrap fInexact)
  | _ => False
  end.
Proof. vm_compute. reflexivity. Qed.
