(* C08 - special values follow the decimal arithmetic rules.  Statements only; proofs in
   Proofs/SpecialProofs.v.  [special_table] (Spec/Specials.v) is the General Decimal Arithmetic table
   for NaN, sNaN, infinities and zeros, written independently of the model; [result_ok c e r] says
   that the operation delivered a value and a Condition accepted by table entry [e] and that the error
   is exactly the one the Condition and c's traps produce.  Each theorem is for ALL operands (any
   coefficient, exponent and sign fields, clean or dirty), ALL contexts and any digit estimate. *)
From Coq Require Import ZArith.
From Apd Require Import Generated.Consts Model.Base Model.NumDigits Model.Decimal Model.Context Spec.Specials Proofs.SpecialProofs.
Open Scope Z_scope.

Theorem C08_add est c x y e : special_table SAdd (rounder_eqb (rounding c) RFloor) x y = Some e ->
  result_ok c e (ctx_add est c x y false).
Proof. exact (add_special est c x y e). Qed.
Print Assumptions C08_add.

Theorem C08_sub est c x y e : special_table SSub (rounder_eqb (rounding c) RFloor) x y = Some e ->
  result_ok c e (ctx_add est c x y true).
Proof. exact (sub_special est c x y e). Qed.
Print Assumptions C08_sub.

Theorem C08_mul est c x y e : special_table SMul (rounder_eqb (rounding c) RFloor) x y = Some e ->
  result_ok c e (ctx_mul est c x y).
Proof. exact (mul_special est c x y e). Qed.
Print Assumptions C08_mul.

Theorem C08_quo est c x y e : special_table SQuo (rounder_eqb (rounding c) RFloor) x y = Some e ->
  result_ok c e (ctx_quo est c x y).
Proof. exact (quo_special est c x y e). Qed.
Print Assumptions C08_quo.

Theorem C08_quo_integer est c x y e : special_table SQuoInteger (rounder_eqb (rounding c) RFloor) x y = Some e ->
  result_ok c e (ctx_quo_integer est c x y).
Proof. exact (quo_integer_special est c x y e). Qed.
Print Assumptions C08_quo_integer.

Theorem C08_rem est c x y e : special_table SRem (rounder_eqb (rounding c) RFloor) x y = Some e ->
  result_ok c e (ctx_rem est c x y).
Proof. exact (rem_special est c x y e). Qed.
Print Assumptions C08_rem.

Theorem C08_abs est c x y e : special_table SAbs (rounder_eqb (rounding c) RFloor) x y = Some e ->
  result_ok c e (ctx_abs est c x).
Proof. exact (abs_special est c x y e). Qed.
Print Assumptions C08_abs.

Theorem C08_neg est c x y e : special_table SNeg (rounder_eqb (rounding c) RFloor) x y = Some e ->
  result_ok c e (ctx_neg est c x).
Proof. exact (neg_special est c x y e). Qed.
Print Assumptions C08_neg.

Theorem C08_round est c x y e : special_table SRound (rounder_eqb (rounding c) RFloor) x y = Some e ->
  result_ok c e (ctx_round_op est c x).
Proof. exact (round_special est c x y e). Qed.
Print Assumptions C08_round.

Theorem C08_reduce est c x y e : special_table SReduce (rounder_eqb (rounding c) RFloor) x y = Some e ->
  result_ok c e (do v <- ctx_reduce est c x; Ok (fst v)).
Proof. exact (reduce_special est c x y e). Qed.
Print Assumptions C08_reduce.

Theorem C08_quantize est c x y q e : special_table SQuantize (rounder_eqb (rounding c) RFloor) x y = Some e ->
  result_ok c e (ctx_quantize est c x q).
Proof. exact (quantize_special est c x y q e). Qed.
Print Assumptions C08_quantize.

Theorem C08_rti_value est c x y e : special_table SRti (rounder_eqb (rounding c) RFloor) x y = Some e ->
  result_ok c e (ctx_rti_value est c x).
Proof. exact (rti_value_special est c x y e). Qed.
Print Assumptions C08_rti_value.

Theorem C08_rti_exact est c x y e : special_table SRti (rounder_eqb (rounding c) RFloor) x y = Some e ->
  result_ok c e (ctx_rti_exact est c x).
Proof. exact (rti_exact_special est c x y e). Qed.
Print Assumptions C08_rti_exact.

Theorem C08_ceil est c x y e : special_table SCeilFloor (rounder_eqb (rounding c) RFloor) x y = Some e ->
  result_ok c e (ctx_ceil est c x).
Proof. exact (ceil_special est c x y e). Qed.
Print Assumptions C08_ceil.

Theorem C08_floor est c x y e : special_table SCeilFloor (rounder_eqb (rounding c) RFloor) x y = Some e ->
  result_ok c e (ctx_floor est c x).
Proof. exact (floor_special est c x y e). Qed.
Print Assumptions C08_floor.

Theorem C08_cmp est c x y e : special_table SCmp (rounder_eqb (rounding c) RFloor) x y = Some e ->
  result_ok c e (ctx_cmp est c x y).
Proof. exact (cmp_special est c x y e). Qed.
Print Assumptions C08_cmp.

(* non-vacuity and readability: a few cells of the table *)
Example C08_cells :
  (special_table SAdd false (mkDec Infinite false 0 0) (mkDec Infinite true 0 0),
   special_table SMul false (mkDec Finite true 3 0) (mkDec Infinite true 0 0),
   special_table SQuo false (mkDec Finite true 0 5) (mkDec Finite false (-2) 0),
   special_table SQuo false (mkDec Finite true 0 0) (mkDec Finite false (-2) 0),
   special_table SRound false (mkDec NaNSignaling true 7 99) (mkDec Finite false 0 0))
  = (Some ex_invalid, Some ex_invalid, Some (mkExpect (KInf true) false true false),
     Some (mkExpect KNaN false false true),
     Some (mkExpect (KCopy (mkDec NaN true 7 99)) true false false)).
Proof. vm_compute. reflexivity. Qed.

(* ---------- the iterative functions: their special-value prologues (Model/Context.v: root_specials,
   log_specials, exp_specials, pow_specials) decide every cell of the table and return at once.
   prologue_ok c e r: the prologue returned (it did not hand over to the iteration), with a value and a
   Condition accepted by table entry e and the error the Condition and c's traps produce.  The zero cell
   of the roots is rounded (clamped) into the context, hence ctx_ok and the exponent-limit hypothesis. *)
From Apd Require Import Proofs.Core Proofs.SetExponent Proofs.OpsProofs Proofs.SpecialFnProofs.

Theorem C08_exp c x y e : special_table SExp (rounder_eqb (rounding c) RFloor) x y = Some e ->
  match exp_specials c x with
  | Some r => match rdec r with
              | Some d => expect_ok e d (rcond r) = true /\ rerr r = ctx_go_error c (rcond r)
              | None => False
              end
  | None => False
  end.
Proof. exact (exp_special c x y e). Qed.
Print Assumptions C08_exp.

Theorem C08_sqrt est : est_in_range est -> forall c x y e, ctx_ok c -> in_lim (Z.quot (exp x) 2) ->
  special_table SSqrt (rounder_eqb (rounding c) RFloor) x y = Some e ->
  prologue_ok c e (root_specials est c x 2).
Proof. exact (sqrt_special est). Qed.
Print Assumptions C08_sqrt.

Theorem C08_cbrt est : est_in_range est -> forall c x y e, ctx_ok c -> in_lim (Z.quot (exp x) 3) ->
  special_table SCbrt (rounder_eqb (rounding c) RFloor) x y = Some e ->
  prologue_ok c e (root_specials est c x 3).
Proof. exact (cbrt_special est). Qed.
Print Assumptions C08_cbrt.

Theorem C08_ln_log10 est : est_in_range est -> forall (o : sop) c x y e, o = SLn \/ o = SLog10 -> 0 <= coeff x ->
  special_table o (rounder_eqb (rounding c) RFloor) x y = Some e ->
  prologue_ok c e (log_specials est c x).
Proof. exact (log_special est). Qed.
Print Assumptions C08_ln_log10.

Theorem C08_pow est : est_in_range est -> forall c x y e, 0 <= coeff x -> 0 <= coeff y ->
  special_table SPow (rounder_eqb (rounding c) RFloor) x y = Some e ->
  prologue_ok c e (pow_specials est c x y).
Proof. exact (pow_special est). Qed.
Print Assumptions C08_pow.

(* non-vacuity: cells of the Pow table *)
Example C08_pow_cells :
  special_table SPow false (mkDec Finite true 0 0) (mkDec Finite true 1 3)     (* (-0) ** (-3E+1): 30 is even *)
    = Some (ex_plain (KInf false))
  /\ special_table SPow false (mkDec Infinite true 0 0) (mkDec Finite false 0 3) (* (-Inf) ** 3 *)
    = Some (ex_plain (KInf true))
  /\ special_table SPow false (mkDec Finite false (-1) 5) (mkDec Infinite true 0 0) (* 0.5 ** -Inf *)
    = Some (ex_plain (KInf false)).
Proof. vm_compute. repeat split. Qed.
