(* C07 - every finite result fits the context it was computed in.  Statements only.
   fits c d: non-negative coefficient, at most Precision digits, adjusted exponent <= Emax, exponent
   >= Etiny for non-zero values (Spec/SpecZ.v).  Quo, Rem, Reduce, Quantize and the iterative functions:
   decided by the fits oracle on every result of the implementation and by correspondence. *)
From Coq Require Import ZArith Bool.
From Apd Require Import Generated.Consts Model.Base Model.NumDigits Model.Decimal Model.Context Spec.SpecZ
  Proofs.Core Proofs.SetExponent Proofs.RoundSpec Proofs.OpsProofs Proofs.QuoProofs Proofs.SeRoundProofs Proofs.OpsProjections.
Open Scope Z_scope.

Theorem C07_round est : est_in_range est -> forall c (x : dec), ctx_ok c -> finite_nn x -> exact_in_limits c (exact_of_dec x) ->
  exists d f, ctx_round_op est c x = Ok (finish c d f) /\ c07_post c d.
Proof. exact (c07_round est). Qed.
Print Assumptions C07_round.

Theorem C07_abs est : est_in_range est -> forall c (x : dec), ctx_ok c -> finite_nn x -> exact_in_limits c (exact_abs x) ->
  exists d f, ctx_abs est c x = Ok (finish c d f) /\ c07_post c d.
Proof. exact (c07_abs est). Qed.
Print Assumptions C07_abs.

Theorem C07_neg est : est_in_range est -> forall c (x : dec), ctx_ok c -> finite_nn x -> exact_in_limits c (exact_neg x) ->
  exists d f, ctx_neg est c x = Ok (finish c d f) /\ c07_post c d.
Proof. exact (c07_neg est). Qed.
Print Assumptions C07_neg.

Theorem C07_add_sub est : est_in_range est -> forall c (x y : dec) (sub : bool), ctx_ok c -> finite_nn x -> finite_nn y -> Z.abs (exp x - exp y) <= MaxExponent -> exact_in_limits c (exact_add x y sub (rounder_eqb (rounding c) RFloor)) ->
  exists d f, ctx_add est c x y sub = Ok (finish c d f) /\ c07_post c d.
Proof. exact (c07_add_sub est). Qed.
Print Assumptions C07_add_sub.

(* Mul: for EVERY pair of finite operands - the exact product in, above or below the context's exponent
   range (below Emin setExponent rounds once to Etiny and the round that follows finds nothing left to do) *)
Theorem C07_mul est : est_in_range est -> forall c (x y : dec), mul_hyps c x y ->
  exists d f, ctx_mul est c x y = Ok (finish c d f) /\ c07_post c d.
Proof. exact (c07_mul est). Qed.
Print Assumptions C07_mul.

(* Quo: for EVERY pair of finite operands with a non-zero divisor - any digit counts, any exponents, ties,
   all-nines carries, quotients in, above and below the normal range (where Quo keeps the remainder as a
   sticky digit and setExponent rounds once to Etiny).  quo_hyps: well-formed context and operands, and
   the exponent of the quotient (mag_frac: its decimal magnitude) stays inside the package limits with
   room for a carry ("subject only to the exponent limits"). *)
Theorem C07_quo est : est_in_range est -> forall c (x y : dec), quo_hyps c x y ->
  exists d f, ctx_quo est c x y = Ok (finish c d f) /\ c07_post c d.
Proof. exact (c07_quo est). Qed.
Print Assumptions C07_quo.
