(* C07 - every finite result fits the context it was computed in.  Statements only.
   fits c d: non-negative coefficient, at most Precision digits, adjusted exponent <= Emax, exponent
   >= Etiny for non-zero values (Spec/SpecZ.v).  The iterative functions (Sqrt, Cbrt, Exp, Ln, Log10, Pow):
   decided by the fits oracle on every result of the implementation and by correspondence. *)
From Coq Require Import ZArith Bool.
From Apd Require Import Generated.Consts Model.Base Model.NumDigits Model.Decimal Model.Context Spec.SpecZ
  Proofs.Core Proofs.SetExponent Proofs.RoundSpec Proofs.OpsProofs Proofs.QuoProofs Proofs.SeRoundProofs Proofs.OpsProjections Proofs.CtxReduce Proofs.DivProofs Proofs.QuantizeMid Proofs.FitProofs.
Open Scope Z_scope.

Theorem C07_round est : est_in_range est -> forall c (x : dec), ctx_ok c -> finite_nn x -> exact_in_limits c (exact_of_dec x) ->
  exists d f, ctx_round_op est c x = Ok (finish c d f) /\ c07_post c d.
Proof. exact (c07_round est). Qed.
Print Assumptions C07_round.

Theorem C07_abs est : est_in_range est -> forall c (x : dec), ctx_ok c -> finite_nn x -> exact_in_limits c (exact_abs x) ->
  exists d f, ctx_abs est c x = Ok (finish c d f) /\ c07_post c d.
Proof. exact (c07_abs est). Qed.
Print Assumptions C07_abs.

Theorem C07_neg est : est_in_range est -> forall c (x : dec), ctx_ok c -> finite_nn x -> exact_in_limits c (exact_neg x) ->
  exists d f, ctx_neg est c x = Ok (finish c d f) /\ c07_post c d.
Proof. exact (c07_neg est). Qed.
Print Assumptions C07_neg.

Theorem C07_add_sub est : est_in_range est -> forall c (x y : dec) (sub : bool), ctx_ok c -> finite_nn x -> finite_nn y -> Z.abs (exp x - exp y) <= MaxExponent -> exact_in_limits c (exact_add x y sub (rounder_eqb (rounding c) RFloor)) ->
  exists d f, ctx_add est c x y sub = Ok (finish c d f) /\ c07_post c d.
Proof. exact (c07_add_sub est). Qed.
Print Assumptions C07_add_sub.

(* Mul: for EVERY pair of finite operands - the exact product in, above or below the context's exponent
   range (below Emin setExponent rounds once to Etiny and the round that follows finds nothing left to do) *)
Theorem C07_mul est : est_in_range est -> forall c (x y : dec), mul_hyps c x y ->
  exists d f, ctx_mul est c x y = Ok (finish c d f) /\ c07_post c d.
Proof. exact (c07_mul est). Qed.
Print Assumptions C07_mul.

(* Quo: for EVERY pair of finite operands with a non-zero divisor - any digit counts, any exponents, ties,
   all-nines carries, quotients in, above and below the normal range (where Quo keeps the remainder as a
   sticky digit and setExponent rounds once to Etiny).  quo_hyps: well-formed context and operands, and
   the exponent of the quotient (mag_frac: its decimal magnitude) stays inside the package limits with
   room for a carry ("subject only to the exponent limits"). *)
Theorem C07_quo est : est_in_range est -> forall c (x y : dec), quo_hyps c x y ->
  exists d f, ctx_quo est c x y = Ok (finish c d f) /\ c07_post c d.
Proof. exact (c07_quo est). Qed.
Print Assumptions C07_quo.

(* Context.Reduce: the stripped non-zero result still fits (fewer digits, same adjusted exponent, a higher
   exponent); Infinity passes through; a zero result is 0E+0 (C19) *)
Theorem C07_reduce est : est_in_range est -> forall c x, ctx_ok c -> finite_nn x -> exact_in_limits c (exact_of_dec x) ->
  exists d f d' n, ctx_reduce est c x = Ok (finish c d' f, n) /\ op_post c (exact_of_dec x) d f /\
    (form_of d = Infinite -> d' = d /\ n = 0) /\
    (form_of d = Finite -> coeff d = 0 -> d' = mkDec Finite (neg d) 0 0 /\ n = 0) /\
    (form_of d = Finite -> 0 < coeff d ->
       form_of d' = Finite /\ neg d' = neg d /\ 0 <= n /\ exp d' = exp d + n /\ coeff d = coeff d' * 10 ^ n /\
       0 < coeff d' /\ coeff d' mod 10 <> 0 /\ fits c d' = true).
Proof. exact (ctx_reduce_correct est). Qed.
Print Assumptions C07_reduce.

(* Rem: the remainder rounded once fits; QuoInteger: exponent 0, at most Precision digits *)
Theorem C07_rem est : est_in_range est -> forall c x y,
  ctx_ok c -> finite_nn x -> finite_nn y -> coeff y <> 0 -> Z.abs (exp x - exp y) <= MaxExponent ->
  exact_in_limits c (mkExact (neg x) (al_a x y mod al_b x y) 1 (al_exp x y)) ->
  exists d f, ctx_rem est c x y = Ok (finish c d f) /\ (form_of d = NaN \/ c07_post c d).
Proof. exact (c07_rem est). Qed.
Print Assumptions C07_rem.

Theorem C07_quo_integer est : est_in_range est -> forall c x y,
  1 <= prec c -> finite_nn x -> finite_nn y -> coeff y <> 0 -> Z.abs (exp x - exp y) <= MaxExponent ->
  exists d f, ctx_quo_integer est c x y = Ok (finish c d f) /\
    (form_of d = NaN \/ (form_of d = Finite /\ exp d = 0 /\ 0 <= coeff d /\ ndigits (coeff d) <= prec c)).
Proof. exact (c07_quo_integer est). Qed.
Print Assumptions C07_quo_integer.

(* Quantize: the result carries the requested exponent and fits, or is NaN *)
Theorem C07_quantize est : est_in_range est -> forall c x e, ctx_ok c -> form_of x = Finite -> 0 <= coeff x ->
  exp x - e < MaxExponent -> e - exp x < MaxExponent -> ndigits (coeff x) < MaxExponent ->
  in_lim e -> in_lim (e + ndigits (quant_coeff (rounding c) x e) - 1) ->
  exists d f, ctx_quantize est c x e = Ok (finish c d f) /\ (form_of d = NaN \/ (form_of d = Finite /\ exp d = e /\ fits c d = true)).
Proof. exact (c07_quantize est). Qed.
Print Assumptions C07_quantize.
