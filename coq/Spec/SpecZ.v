(* Spec-Z: the executable, integer-only statement of "the exact result rounded once to the context".
   It does not use any function of Model/ except the Flocq digit count [ndigits]; in particular the
   rounding decision is restated here, not shared with Model.should_add_one. *)
From Apd Require Import Generated.Consts Model.Base Model.NumDigits.
Open Scope Z_scope.

(* an exact value  (-1)^xneg * xnum/xden * 10^xexp  with xnum >= 0, xden > 0 *)
Record exact := mkExact { xneg : bool; xnum : Z; xden : Z; xexp : Z }.

(* integer rounding of the non-negative rational n/d in mode m; ng = the value is negative *)
Definition rndZ (m : rounder) (ng : bool) (n d : Z) : Z :=
  let q := n / d in
  let r := n mod d in
  if r =? 0 then q else
  match m with
  | RDown => q
  | RUp => q + 1
  | RCeiling => if ng then q else q + 1
  | RFloor => if ng then q + 1 else q
  | RHalfUp | RDefault => if 2 * r >=? d then q + 1 else q
  | RHalfDown => if 2 * r >? d then q + 1 else q
  | RHalfEven => match 2 * r ?= d with Lt => q | Gt => q + 1 | Eq => if Z.even q then q else q + 1 end
  | R05Up => if (q mod 5 =? 0) then q + 1 else q
  end.

(* magnitude: the k with 10^(k-1) <= n/d < 10^k, for n, d > 0 *)
Definition mag_frac (n d : Z) : Z :=
  let k0 := ndigits n - ndigits d in
  let ge := if 0 <=? k0 then d * 10 ^ k0 <=? n else d <=? n * 10 ^ (- k0) in
  if ge then k0 + 1 else k0.

(* n/d * 10^s as a fraction with integer numerator and denominator *)
Definition scale_frac (n d s : Z) : Z * Z := if 0 <=? s then (n * 10 ^ s, d) else (n, d * 10 ^ (- s)).

Inductive sres :=
| SInf (ng : bool)
| SFin (ng : bool) (m : Z) (e : Z).     (* value (-1)^ng * m * 10^e, m >= 0, in GDA representation *)

Record sround := mkSround { s_res : sres; s_inexact : bool; s_subnormal : bool; s_overflow : bool }.

(* the exact non-zero value rounded once to context (p, emin, emax, mode); p >= 1 *)
Definition spec_round_nz (p emin_ emax_ : Z) (mode : rounder) (x : exact) : sround :=
  let k := mag_frac (xnum x) (xden x) + xexp x in        (* 10^(k-1) <= |x| < 10^k *)
  let et := emin_ - p + 1 in
  let er := Z.max (k - p) et in
  let '(n1, d1) := scale_frac (xnum x) (xden x) (xexp x - er) in
  let m := rndZ mode (xneg x) n1 d1 in
  let inexact := negb (n1 mod d1 =? 0) in
  let subnormal := k - 1 <? emin_ in
  let '(m1, e1) := if ndigits m >? p then (m / 10, er + 1) else (m, er) in
  let overflow := negb (m1 =? 0) && (e1 + ndigits m1 - 1 >? emax_) in
  if overflow then mkSround (SInf (xneg x)) true subnormal true
  else mkSround (SFin (xneg x) m1 e1) inexact subnormal false.

(* with Precision 0 rounding is disabled: the result is the exact value itself (integer numerator) *)
Definition spec_exact_p0 (x : exact) : sres := SFin (xneg x) (xnum x) (xexp x).

(* does a returned decimal denote this specified result? numeric value and sign (of zero too) *)
(* c1 * 10^e1 = c2 * 10^e2; the digit-count test only avoids computing huge powers *)
Definition value_eqb (c1 e1 c2 e2 : Z) : bool :=
  if (c1 =? 0) || (c2 =? 0) then (c1 =? 0) && (c2 =? 0)
  else if negb (ndigits c1 + e1 =? ndigits c2 + e2) then false
  else if e1 <=? e2 then c1 =? c2 * 10 ^ (e2 - e1) else c1 * 10 ^ (e1 - e2) =? c2.

Definition matches (d : dec) (s : sres) : bool :=
  match s with
  | SInf ng => form_eqb (form_of d) Infinite && Bool.eqb (neg d) ng
  | SFin ng m e => form_eqb (form_of d) Finite && Bool.eqb (neg d) ng && (0 <=? coeff d)
                   && value_eqb (coeff d) (exp d) m e
  end.

(* ---------- exact results of the operations on finite operands ---------- *)

Definition exact_of_dec (d : dec) : exact := mkExact (neg d) (coeff d) 1 (exp d).

Definition exact_add (x y : dec) (subtract : bool) (floor_mode : bool) : exact :=
  let e0 := Z.min (exp x) (exp y) in
  let a := coeff x * 10 ^ (exp x - e0) in
  let b := coeff y * 10 ^ (exp y - e0) in
  let sa := if neg x then - a else a in
  let sb := if xorb (neg y) subtract then - b else b in
  let s := sa + sb in
  if s =? 0 then
    (* both addends are zeros of the same sign: that sign; otherwise +0, -0 under RoundFloor *)
    let yn := xorb (neg y) subtract in
    mkExact (if Bool.eqb (neg x) yn then neg x else floor_mode) 0 1 e0
  else mkExact (s <? 0) (Z.abs s) 1 e0.

Definition exact_mul (x y : dec) : exact :=
  mkExact (xorb (neg x) (neg y)) (coeff x * coeff y) 1 (exp x + exp y).

(* y non-zero *)
Definition exact_quo (x y : dec) : exact :=
  mkExact (xorb (neg x) (neg y)) (coeff x) (coeff y) (exp x - exp y).

(* the four flags the specification ties to the exact result *)
Definition spec_flags (p emin_ emax_ : Z) (mode : rounder) (x : exact) : sround :=
  if xnum x =? 0 then mkSround (SFin (xneg x) 0 (xexp x)) false false false
  else spec_round_nz p emin_ emax_ mode x.

(* every finite result fits the context *)
Definition fits (c : ctx) (d : dec) : bool :=
  (0 <=? coeff d)
  && ((prec c =? 0) || (ndigits (coeff d) <=? prec c))
  && (exp d + ndigits (coeff d) - 1 <=? emax c)
  && ((coeff d =? 0) || (emin c - prec c + 1 <=? exp d)).

(* the digit count of 10^k + delta for delta in {-1, 0, 1}, k >= 1: k digits for 10^k - 1, k + 1 otherwise *)
Definition expected_digits_pow10 (k delta : Z) : Z := if delta <? 0 then k else k + 1.
