(* Specification of the comparisons (C15), independent of the model of Decimal.Cmp. *)
From Apd Require Import Generated.Consts Model.Base Model.NumDigits.
Open Scope Z_scope.

Definition cmpZ' (a b : Z) : Z := match a ?= b with Lt => -1 | Eq => 0 | Gt => 1 end.

(* sign of c1*10^e1 - c2*10^e2: both sides scaled exactly to the smaller exponent *)
Definition vcmp (c1 e1 c2 e2 : Z) : Z :=
  let m := Z.min e1 e2 in cmpZ' (c1 * 10 ^ (e1 - m)) (c2 * 10 ^ (e2 - m)).

(* numeric sign of a non-NaN decimal: zeros of either sign and any exponent are 0 *)
Definition vsign (d : dec) : Z :=
  if form_eqb (form_of d) Finite && (coeff d =? 0) then 0 else if neg d then -1 else 1.

(* sign of the exact numeric difference a - b for non-NaN a, b (infinities bound all finite values) *)
Definition cmp_spec (a b : dec) : Z :=
  let sa := vsign a in
  let sb := vsign b in
  if sa <? sb then -1 else if sa >? sb then 1 else if sa =? 0 then 0 else
  let ia := form_eqb (form_of a) Infinite in
  let ib := form_eqb (form_of b) Infinite in
  if ia && ib then 0 else if ia then sa else if ib then - sa else
  sa * vcmp (coeff a) (exp a) (coeff b) (exp b).

(* the documented total order: -NaN < -sNaN < -Inf < finite < +Inf < +sNaN < +NaN *)
Definition total_rank (d : dec) : Z :=
  let r := match form_of d with Finite => 1 | Infinite => 2 | NaNSignaling => 3 | NaN => 4 end in
  if neg d then - r else r.

(* finite values of the same sign: by value, then by exponent (reversed for negatives).
   zero of the sign of [a] compared by value is always equal to another zero *)
Definition total_finite (a b : dec) : Z :=
  let s := if neg a then -1 else 1 in
  let v := if (coeff a =? 0) && (coeff b =? 0) then 0
           else if coeff a =? 0 then - s
           else if coeff b =? 0 then s
           else s * vcmp (coeff a) (exp a) (coeff b) (exp b) in
  if negb (v =? 0) then v else s * cmpZ' (exp a) (exp b).

(* NaNs of the same kind and sign are ordered by payload (coefficient) by the code; the documentation
   leaves that order open, the theorem states what the model does *)
Definition total_spec (a b : dec) : Z :=
  let ra := total_rank a in
  let rb := total_rank b in
  if ra <? rb then -1 else if ra >? rb then 1 else
  match form_of a with
  | Finite => total_finite a b
  | Infinite => 0
  | _ => cmpZ' (coeff a) (coeff b)
  end.
