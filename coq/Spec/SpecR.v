(* Spec-R: the rounding of the specification restated with the standard vocabulary of floating-point
   rounding in Coq (Flocq): rounding a real to an integer in each of apd's modes, and rounding a real to the
   decimal format of a context, round radix10 (FLT_exp Etiny Precision).  Proofs/SpecRProofs.v shows that
   the integer specification Spec-Z (rndZ, spec_round_nz), against which the model is proven, computes
   exactly these functions. *)
From Coq Require Import ZArith Reals.
From Flocq Require Import Core.
From Apd Require Import Model.Base Spec.SpecZ.

Definition radix10 : radix := Build_radix 10 eq_refl.

(* integer rounding of a (signed) real in each mode *)
Definition rnd_of (m : rounder) : R -> Z :=
  match m with
  | RDown => Ztrunc
  | RUp => Zaway
  | RCeiling => Zceil
  | RFloor => Zfloor
  | RHalfEven => ZnearestE
  | RHalfUp | RDefault => Znearest (fun t => (0 <=? t)%Z)             (* ties away from zero *)
  | RHalfDown => Znearest (fun t => (t <? 0)%Z)                       (* ties toward zero *)
  | R05Up => fun x => let t := Ztrunc x in
                      if Req_bool (IZR t) x then t
                      else if (Z.abs t mod 5 =? 0)%Z then Zaway x else t
  end.

(* the value of an exact result and of a specified result *)
Definition E2R (E : exact) : R :=
  (if xneg E then -1 else 1) * (IZR (xnum E) / IZR (xden E)) * bpow radix10 (xexp E).
Definition sres_R (s : sres) : option R :=
  match s with
  | SInf _ => None
  | SFin ng m e => Some (F2R (Float radix10 (if ng then - m else m)%Z e))
  end.

(* the format of a context: Precision digits, exponents not below Etiny *)
Definition ctx_fexp (p emin_ : Z) : Z -> Z := FLT_exp (emin_ - p + 1) p.
Definition round_ctx (p emin_ : Z) (m : rounder) (x : R) : R := round radix10 (ctx_fexp p emin_) (rnd_of m) x.
