(* The numeric-string grammar of the General Decimal Arithmetic specification and to-scientific-string,
   written independently of the model of the parser and formatter (left-to-right scanning instead of
   index/prefix surgery).

     numeric-string ::= [sign] ( decimal-part [exponent-part] | "Inf" | "Infinity" | "NaN" digit* | "sNaN" digit* )
     decimal-part   ::= digit+ '.' digit* | '.' digit+ | digit+
     exponent-part  ::= ('e' | 'E') [sign] digit+            (letters case-insensitive, ASCII only) *)
From Coq Require Import List.
From Apd Require Import Generated.Consts Model.Base Model.NumDigits.
Import ListNotations.
Open Scope Z_scope.

Definition gdigit (b : Z) : bool := (48 <=? b) && (b <=? 57).
Definition glower (b : Z) : Z := if (65 <=? b) && (b <=? 90) then b + 32 else b.

(* longest prefix of digits: (value, count, rest) *)
Fixpoint span_digits (s : list Z) (acc : Z) (n : Z) : Z * Z * list Z :=
  match s with
  | b :: t => if gdigit b then span_digits t (acc * 10 + (b - 48)) (n + 1) else (acc, n, s)
  | [] => (acc, n, s)
  end.

Fixpoint lit_eqb (s : list Z) (lit : list Z) : option (list Z) :=     (* case-insensitive literal prefix; returns the rest *)
  match lit, s with
  | [], _ => Some s
  | _, [] => None
  | a :: lit', b :: s' => if glower b =? a then lit_eqb s' lit' else None
  end.

Inductive gvalue := GInf (ng : bool) | GNaN (ng : bool) (signaling : bool) | GNum (ng : bool) (coeff : Z) (e : Z).

Definition strip_sign (s : list Z) : bool * list Z :=
  match s with b :: t => if b =? 45 then (true, t) else if b =? 43 then (false, t) else (false, s) | [] => (false, s) end.

(* exponent-part or end of string: Some written-exponent *)
Definition gexp (r : list Z) : option Z :=
  match r with
  | [] => Some 0
  | b :: t =>
      if glower b =? 101 then
        let '(ng, t') := strip_sign t in
        let '(v, n, rest) := span_digits t' 0 0 in
        match rest with [] => if n >? 0 then Some (if ng then - v else v) else None | _ => None end
      else None
  end.

(* the decimal-part [exponent-part] alternative; gx recognises the exponent-part (or the end of the string) *)
Definition gnum (gx : list Z -> option Z) (ng : bool) (s : list Z) : option gvalue :=
  let '(v1, n1, r1) := span_digits s 0 0 in
  let nopoint := if n1 >? 0 then match gx r1 with Some e => Some (GNum ng v1 e) | None => None end else None in
  match r1 with
  | b :: r2 =>
      if b =? 46 then
        let '(v2, n2, r3) := span_digits r2 v1 0 in        (* fraction digits continue the coefficient *)
        if n1 + n2 >? 0 then match gx r3 with Some e => Some (GNum ng v2 (e - n2)) | None => None end else None
      else nopoint
  | [] => nopoint
  end.

Definition gparse_with (gx : list Z -> option Z) (s0 : list Z) : option gvalue :=
  let '(ng, s) := strip_sign s0 in
  match lit_eqb s [105; 110; 102; 105; 110; 105; 116; 121] with Some [] => Some (GInf ng) | _ =>
  match lit_eqb s [105; 110; 102] with Some [] => Some (GInf ng) | _ =>
  match lit_eqb s [110; 97; 110] with
  | Some r => let '(_, _, rest) := span_digits r 0 0 in match rest with [] => Some (GNaN ng false) | _ => None end
  | None =>
  match lit_eqb s [115; 110; 97; 110] with
  | Some r => let '(_, _, rest) := span_digits r 0 0 in match rest with [] => Some (GNaN ng true) | _ => None end
  | None => gnum gx ng s
  end end end end.

Definition gparse (s0 : list Z) : option gvalue := gparse_with gexp s0.

(* the package limits: exponent and adjusted exponent of the parsed value within +-100000 *)
Definition within_limits (coeff e : Z) : bool :=
  (MinExponent <=? e) && (e <=? MaxExponent)
  && (MinExponent <=? e + ndigits coeff - 1) && (e + ndigits coeff - 1 <=? MaxExponent).

(* what NewFromString must return: None = error *)
Definition gdec (s : list Z) : option dec :=
  match gparse s with
  | Some (GInf ng) => Some (mkDec Infinite ng 0 0)
  | Some (GNaN ng sg) => Some (mkDec (if sg then NaNSignaling else NaN) ng 0 0)
  | Some (GNum ng c e) => if within_limits c e then Some (mkDec Finite ng e c) else None
  | None => None
  end.

(* ---------- to-scientific-string (GDA), with apd's documented exception for zeros ---------- *)
Fixpoint sdigits_fuel (fuel : nat) (n : Z) (acc : list Z) : list Z :=
  match fuel with O => acc | S f => if n <? 10 then (48 + n) :: acc else sdigits_fuel f (n / 10) ((48 + n mod 10) :: acc) end.
Definition sdigits (n : Z) : list Z := sdigits_fuel (S (Z.to_nat (Z.log2 n))) n [].

Definition sci_string (d : dec) : list Z :=
  let sign := if neg d then [45] else [] in
  match form_of d with
  | NaN => sign ++ [78; 97; 78]
  | NaNSignaling => sign ++ [115; 78; 97; 78]
  | Infinite => sign ++ [73; 110; 102; 105; 110; 105; 116; 121]
  | Finite =>
      let ds := sdigits (coeff d) in
      let n := Z.of_nat (length ds) in
      let e := exp d in
      let adj := e + n - 1 in
      (* documented exception: a zero with exponent in [-2000, -1] is written out in plain notation *)
      let zero_plain := (coeff d =? 0) && (-2000 <=? e) && (e <? 0) in
      if zero_plain || ((e <=? 0) && (-6 <=? adj)) then
        (* plain notation *)
        if e =? 0 then sign ++ ds
        else if n + e >? 0 then sign ++ firstn (Z.to_nat (n + e)) ds ++ [46] ++ skipn (Z.to_nat (n + e)) ds
        else sign ++ [48; 46] ++ repeat 48 (Z.to_nat (- (n + e))) ++ ds
      else
        (* scientific notation: one digit, fraction, E, signed adjusted exponent *)
        sign ++ (match ds with d0 :: rest => d0 :: (match rest with [] => [] | _ => 46 :: rest end) | [] => [] end)
        ++ [69] ++ (if adj <? 0 then 45 :: sdigits (- adj) else 43 :: sdigits adj)
  end.

(* fmt's rules for a number: sign flags, width, '-' left-justifies with spaces, '0' pads with zeros after
   the sign unless '-' is set; non-finite values are never zero-padded *)
Definition fmt_pad (plus space minus zero : bool) (width : option Z) (finite : bool) (text : list Z) : list Z :=
  let '(sign, body) :=
    match text with
    | 45 :: t => ([45], t)
    | _ => if plus then ([43], text) else if space then ([32], text) else ([], text)
    end in
  let len := Z.of_nat (length sign + length body) in
  let pad := match width with Some w => Z.to_nat (w - len) | None => O end in
  if minus then sign ++ body ++ repeat 32 pad
  else if zero && finite then sign ++ repeat 48 pad ++ body
  else repeat 32 pad ++ sign ++ body.
