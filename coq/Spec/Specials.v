(* The General Decimal Arithmetic rules for special operands (NaN, sNaN, infinities, signed zeros),
   written as a table independent of the model.  [expect] says what the result must be. *)
From Apd Require Import Generated.Consts Model.Base Model.NumDigits Spec.Order.
Open Scope Z_scope.

Inductive sop := SAdd | SSub | SMul | SQuo | SQuoInteger | SRem | SAbs | SNeg | SRound | SReduce | SQuantize
               | SRti | SCeilFloor | SCmp | SSqrt | SCbrt | SLn | SLog10 | SExp | SPow.

Inductive rkind :=
| KNaN                      (* quiet NaN *)
| KInf (ng : bool)
| KZero (ng : bool)
| KOne
| KCopy (d : dec).          (* the operand itself (form, sign and, for NaN, payload) *)

Record expect := mkExpect { e_kind : rkind; e_invalid : bool; e_divzero : bool; e_divundef : bool }.
Definition ex_plain (k : rkind) := mkExpect k false false false.
Definition ex_invalid := mkExpect KNaN true false false.

Definition isF (d : dec) := form_eqb (form_of d) Finite.
Definition isI (d : dec) := form_eqb (form_of d) Infinite.
Definition isS (d : dec) := form_eqb (form_of d) NaNSignaling.
Definition isQ (d : dec) := form_eqb (form_of d) NaN.
Definition isZ (d : dec) := isF d && (coeff d =? 0).

(* NaN handling common to every operation: Some = decided by a NaN operand *)
Definition nan_rule (x : dec) (y : option dec) : option expect :=
  let quiet (d : dec) := mkDec NaN (neg d) (exp d) (coeff d) in
  if isS x then Some (mkExpect (KCopy (quiet x)) true false false) else
  match y with
  | Some y =>
      if isS y then Some (mkExpect (KCopy (quiet y)) true false false)
      else if isQ x then Some (ex_plain (KCopy x))
      else if isQ y then Some (ex_plain (KCopy y)) else None
  | None => if isQ x then Some (ex_plain (KCopy x)) else None
  end.

(* a finite decimal that denotes an integer / an odd integer (coefficient >= 0) *)
Definition is_int (y : dec) : bool :=
  isF y && ((0 <=? exp y) || (coeff y mod 10 ^ (- exp y) =? 0)).
Definition int_odd (y : dec) : bool :=
  isF y && (if 0 <? exp y then false
            else (coeff y mod 10 ^ (- exp y) =? 0) && Z.odd (coeff y / 10 ^ (- exp y))).
Definition one_dec : dec := mkDec Finite false 0 1.

(* None = the table does not speak about this cell (ordinary finite arithmetic) *)
Definition special_table (o : sop) (floor_mode : bool) (x y : dec) : option expect :=
  let binary := match o with SAdd | SSub | SMul | SQuo | SQuoInteger | SRem | SCmp | SPow => true | _ => false end in
  match nan_rule x (if binary then Some y else None) with
  | Some e => Some e
  | None =>
    let sx := xorb (neg x) (neg y) in
    match o with
    | SAdd | SSub =>
        let yn := match o with SSub => negb (neg y) | _ => neg y end in
        if isI x && isI y then (if Bool.eqb (neg x) yn then Some (ex_plain (KInf (neg x))) else Some ex_invalid)
        else if isI x then Some (ex_plain (KInf (neg x)))
        else if isI y then Some (ex_plain (KInf yn))
        else None
    | SMul =>
        if isI x || isI y then (if isZ x || isZ y then Some ex_invalid else Some (ex_plain (KInf sx))) else None
    | SQuo | SQuoInteger =>
        if isI x && isI y then Some ex_invalid
        else if isI x then Some (ex_plain (KInf sx))
        else if isI y then Some (ex_plain (KZero sx))
        else if isZ y then (if isZ x then Some (mkExpect KNaN false false true)
                            else Some (mkExpect (KInf sx) false true false))
        else None
    | SRem =>
        if isI x then Some ex_invalid
        else if isI y then None                     (* x rem Inf = x rounded: ordinary arithmetic *)
        else if isZ y then (if isZ x then Some (mkExpect KNaN false false true) else Some ex_invalid)
        else None
    | SAbs => if isI x then Some (ex_plain (KInf false)) else None
    | SNeg => if isI x then Some (ex_plain (KInf (negb (neg x)))) else None
    | SRound | SReduce | SRti | SCeilFloor => if isI x then Some (ex_plain (KInf (neg x))) else None
    | SQuantize => if isI x then Some ex_invalid else None
    | SCmp => None
    | SSqrt =>
        if isI x then (if neg x then Some ex_invalid else Some (ex_plain (KInf false)))
        else if isZ x then Some (ex_plain (KZero (neg x)))
        else if neg x then Some ex_invalid else None
    | SCbrt =>
        if isI x && negb (neg x) then Some (ex_plain (KInf false))
        else if isZ x then Some (ex_plain (KZero (neg x))) else None
    | SLn | SLog10 =>
        if isZ x then Some (ex_plain (KInf true))
        else if neg x then Some ex_invalid
        else if isI x then Some (ex_plain (KInf false))
        else if cmp_spec x one_dec =? 0 then Some (ex_plain (KZero false))      (* ln 1 = log10 1 = 0 *)
        else None
    | SExp =>
        if isI x then (if neg x then Some (ex_plain (KZero false)) else Some (ex_plain (KInf false)))
        else if isZ x then Some (ex_plain KOne)                                  (* exp(+-0) = 1 *)
        else None
    | SPow =>
        (* the result is negative exactly when the base is negative and the exponent an odd integer *)
        let sg := neg x && int_odd y in
        if isI x then
          if isZ y then Some (ex_plain KOne)
          else if neg x && (isI y || negb (is_int y)) then Some ex_invalid
          else if neg y then Some (ex_plain (KZero sg)) else Some (ex_plain (KInf sg))
        else if isZ x then
          if isZ y then Some ex_invalid
          else if neg y then Some (ex_plain (KInf sg)) else Some (ex_plain (KZero sg))
        else if isZ y then Some (ex_plain KOne)
        else if isI y then
          if neg x then Some ex_invalid
          else let o := cmp_spec x one_dec in
               if o =? -1 then Some (ex_plain (if neg y then KInf false else KZero false))
               else if o =? 0 then Some (ex_plain KOne)
               else Some (ex_plain (if neg y then KZero false else KInf false))
        else if neg x && negb (is_int y) then Some ex_invalid
        else None
    end
  end.

(* does the returned (decimal, condition) agree with the expectation? *)
Definition kind_ok (k : rkind) (d : dec) : bool :=
  match k with
  | KNaN => isQ d
  | KInf ng => isI d && Bool.eqb (neg d) ng
  | KZero ng => isZ d && Bool.eqb (neg d) ng
  | KOne => isF d && negb (neg d) && (coeff d =? 10 ^ (- exp d)) && (exp d <=? 0)
  | KCopy s => form_eqb (form_of d) (form_of s) && Bool.eqb (neg d) (neg s)
               && (isF s || ((coeff d =? coeff s)))
  end.
Definition expect_ok (e : expect) (d : dec) (f : cond) : bool :=
  kind_ok (e_kind e) d && Bool.eqb (InvalidOperation f) (e_invalid e)
  && Bool.eqb (DivisionByZero f) (e_divzero e) && Bool.eqb (DivisionUndefined f) (e_divundef e).
